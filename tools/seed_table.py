#!/usr/bin/env python3
"""tools/seed_table.py [selftest logs...] : record which checks caught which seeded change (meta.json caught_by /
missed_by) from selftest logs, and print the markdown table used in DESIGN.md section 12."""
import glob, json, os, re, sys
res = {}
for log in sys.argv[1:]:
    for l in open(log):
        m = re.match(r"^(\S+)\s+(C\d\d)\s+exit=(\d+)\s+(\d+)s\s*(.*)$", l)
        if m:
            res.setdefault(m.group(1), {})[m.group(2)] = (int(m.group(3)), m.group(5))
rows = []
for d in sorted(glob.glob(os.path.join(os.path.dirname(__file__), "..", "seeded", "*", ""))):
    mp = os.path.join(d, "meta.json")
    meta = json.load(open(mp))
    sid = meta["id"]
    if sid in res:
        caught = sorted(set(meta.get("caught_by", [])) | {p for p, (rc, _) in res[sid].items() if rc == 1})
        missed = sorted((set(meta.get("missed_by", [])) | {p for p, (rc, _) in res[sid].items() if rc != 1}) - set(caught))
        meta["caught_by"], meta["missed_by"] = caught, missed
        first = {p: t for p, (rc, t) in res[sid].items() if rc == 1}
        if first:
            meta.setdefault("first_report", {}).update({p: t[:200] for p, t in first.items()})
        json.dump(meta, open(mp, "w"), indent=1, ensure_ascii=False)
    files = sorted({l.split(" b/")[-1].strip() for l in open(os.path.join(d, "patch.diff")) if l.startswith("diff --git")})
    rows.append("| %s | %s | %s | %s | %s |" % (sid, ", ".join(f.replace("src/", "") for f in files), meta["needs"].replace("|", "/")[:170],
                                            " ".join(meta.get("caught_by", [])) or "-", " ".join(meta.get("missed_by", [])) or "-"))
print("| seeded change | file(s) | needs, to manifest | caught by (quick tier) | not caught by |")
print("|---|---|---|---|---|")
print("\n".join(rows))
