#!/bin/bash
# tools/silence.sh <seed>... : every quick check on the unchanged tree, one fresh process per check and seed;
# prints one line per run; non-zero exit if any check did not exit 0.
cd "$(dirname "$0")/.."
bad=0
for seed in "$@"; do
  for i in 01 02 03 04 05 06 07 08 09 10 11 12 13 14 15 16 17 18 19; do
    out=$(VERIF_SEED=$seed ./check C$i --tier quick 2>&1); rc=$?
    echo "seed=$seed C$i rc=$rc $(echo "$out" | tail -1 | cut -c1-120)"
    if [ $rc -ne 0 ]; then bad=1; echo "$out" | grep -E "VIOLATION|INFRA" | head -3 | cut -c1-300; fi
  done
done
exit $bad
