#!/usr/bin/env python3
"""Builds engine/data/hash_collisions.json: for a fixed set of variant names, strings of the same length that
collide with a name under common 32-bit string hashes (FNV-1a, FNV-1, djb2, sdbm, the 31-multiplier hash) - found by
meet-in-the-middle over the last four bytes. C04 feeds them to the parsers: a parser that dispatches on a hash and
does not compare the text afterwards accepts them. Deterministic; the file is committed and re-verified on load."""
import json
import os
import random

M32 = 0xFFFFFFFF
NAMES = ["Variant%02d" % i for i in range(20)] + ["North", "South", "East4567", "Westward"]


def inv(a):
    return pow(a, -1, 1 << 32)


FNV_P, FNV_B = 16777619, 2166136261
HASHES = {
    # name: (initial state, step, inverse step)
    "fnv1a32": (FNV_B, lambda h, b: ((h ^ b) * FNV_P) & M32, lambda h, b: ((h * inv(FNV_P)) & M32) ^ b),
    "fnv1_32": (FNV_B, lambda h, b: ((h * FNV_P) & M32) ^ b, lambda h, b: ((h ^ b) * inv(FNV_P)) & M32),
    "djb2": (5381, lambda h, b: (h * 33 + b) & M32, lambda h, b: ((h - b) * inv(33)) & M32),
    "djb2_xor": (5381, lambda h, b: ((h * 33) & M32) ^ b, lambda h, b: ((h ^ b) * inv(33)) & M32),
    "sdbm": (0, lambda h, b: (h * 65599 + b) & M32, lambda h, b: ((h - b) * inv(65599)) & M32),
    "mul31": (0, lambda h, b: (h * 31 + b) & M32, lambda h, b: ((h - b) * inv(31)) & M32),
}
ALPHA = [c for c in range(0x21, 0x7f) if chr(c) not in "\"\\"]


def hash_of(name, data):
    init, step, _ = HASHES[name]
    h = init
    for b in data:
        h = step(h, b)
    return h


def collide(hname, target_name, rnd):
    init, step, back = HASHES[hname]
    data = target_name.encode()
    target = hash_of(hname, data)
    L = len(data)
    for _try in range(400):
        prefix = bytes(rnd.choice(ALPHA) for _ in range(L - 4))
        h = init
        for b in prefix:
            h = step(h, b)
        fwd = {}
        for b1 in ALPHA:
            h1 = step(h, b1)
            for b2 in ALPHA:
                fwd[step(h1, b2)] = (b1, b2)
        for b4 in ALPHA:
            t1 = back(target, b4)
            for b3 in ALPHA:
                t2 = back(t1, b3)
                if t2 in fwd:
                    cand = prefix + bytes(fwd[t2]) + bytes([b3, b4])
                    if cand != data:
                        assert hash_of(hname, cand) == target
                        return cand.decode()
    return None


def main():
    rnd = random.Random(20260927)
    out = {"names": NAMES, "collisions": {}}
    for hname in HASHES:
        lst = []
        for nm in NAMES[::3]:
            c = collide(hname, nm, rnd)
            if c is not None:
                lst.append([nm, c])
        out["collisions"][hname] = lst
        print(hname, len(lst), lst[:2])
    path = os.path.join(os.path.dirname(os.path.dirname(os.path.abspath(__file__))), "engine", "data", "hash_collisions.json")
    with open(path, "w") as f:
        json.dump(out, f, indent=1)


if __name__ == "__main__":
    main()
