#!/bin/bash
# tools/vet_seed.sh <patch> <demo.rs> : confirm a seeded change (a) builds, (b) passes the pinned suite,
# (c) makes the demonstration fail, while the demonstration passes on the unchanged tree.
# Works in a scratch copy outside /repo and /verif and removes it afterwards.
set -u
PATCH=$(readlink -f "$1"); DEMO=$(readlink -f "$2")
S=/tmp/vet-$$; export CARGO_TARGET_DIR=/tmp/vet-target CARGO_NET_OFFLINE=true
rm -rf $S; mkdir -p $S; rsync -a --exclude target --exclude .git /repo/ $S/r/
cd $S/r
find src Cargo.toml -exec touch {} +      # rsync keeps old mtimes: make cargo rebuild the macro from this copy
cp "$DEMO" tests/seeded_demo.rs
echo "== demo on clean tree (must pass)"
cargo test --offline -q --test seeded_demo > $S/clean.log 2>&1; CLEAN=$?
tail -3 $S/clean.log
echo "== apply patch"
if ! patch -p1 --no-backup-if-mismatch < "$PATCH" > $S/patch.log 2>&1; then cat $S/patch.log; echo "RESULT patch-does-not-apply"; rm -rf $S; exit 3; fi
find src -exec touch {} +
echo "== pinned suite with patch (must pass)"
mv tests/seeded_demo.rs $S/demo.rs
cargo test --workspace --no-fail-fast --offline > $S/suite.log 2>&1; SUITE=$?
grep -E "^test result" $S/suite.log | awk '{p+=$4; f+=$6} END {print "passed", p, "failed", f}'
echo "== demo with patch (must fail)"
cp $S/demo.rs tests/seeded_demo.rs
cargo test --offline -q --test seeded_demo > $S/mut.log 2>&1; MUT=$?
tail -5 $S/mut.log | cut -c1-300
echo "RESULT clean_demo_rc=$CLEAN suite_rc=$SUITE mutated_demo_rc=$MUT"
cd /; rm -rf $S
[ $CLEAN -eq 0 ] && [ $SUITE -eq 0 ] && [ $MUT -ne 0 ]
