#!/usr/bin/env python3
"""Re-generate the seeded-changes table inside DESIGN.md (between the markers) from seeded/*/meta.json."""
import os, re, subprocess, sys
root = os.path.join(os.path.dirname(os.path.abspath(__file__)), "..")
table = subprocess.run([os.path.join(root, "tools", "seed_table.py")] + sys.argv[1:], stdout=subprocess.PIPE, text=True).stdout.strip()
p = os.path.join(root, "DESIGN.md")
s = open(p).read()
block = "<!-- seeded-table-begin -->\n" + table + "\n<!-- seeded-table-end -->"
if "@TABLE@" in s:
    s = s.replace("@TABLE@", block)
else:
    s = re.sub(r"<!-- seeded-table-begin -->.*?<!-- seeded-table-end -->", lambda m: block, s, flags=re.S)
open(p, "w").write(s)
print("table rows:", table.count("\n") - 1)
