#!/usr/bin/env python3
"""tools/intake.py <prop> <a|b> <slug> "<needs>" : vet a sub-agent's seeded change and keep it as seeded/<prop>-<slug>/"""
import json, os, shutil, subprocess, sys
prop, which, slug, needs = sys.argv[1:5]
src = "/tmp/wt/%s-out" % prop
if prop.startswith(("R2", "R3", "R4", "R5", "R6", "R7", "R8", "R9", "RA")):
    prop = prop[2:]
patch = os.path.join(src, "%s.patch" % which)
demo = os.path.join(src, "%s_demo.rs" % which)
r = subprocess.run(["/verif/tools/vet_seed.sh", patch, demo], stdout=subprocess.PIPE, stderr=subprocess.STDOUT, text=True)
print(r.stdout[-1500:])
if r.returncode != 0:
    print("NOT KEPT: vetting failed")
    sys.exit(1)
d = "/verif/seeded/%s-%s" % (prop, slug)
os.makedirs(d, exist_ok=True)
shutil.copy(patch, os.path.join(d, "patch.diff"))
shutil.copy(demo, os.path.join(d, "demo.rs"))
res = [l for l in r.stdout.split("\n") if l.startswith("RESULT") or l.startswith("passed")]
meta = {"id": "%s-%s" % (prop, slug), "breaks": [prop], "source": "independent sub-agent given only the property text and a scratch worktree",
        "needs": needs, "vetted": {"cmd": "tools/vet_seed.sh patch.diff demo.rs", "outcome": res},
        "caught_by": [], "notes": ""}
json.dump(meta, open(os.path.join(d, "meta.json"), "w"), indent=1)
print("kept", d)
