#!/usr/bin/env python3
"""tools/cost_table.py <thorough log>... : markdown table for DESIGN section 10 from evidence/*.json (quick tier, last
run against /repo) and the `Cxx tier=thorough ...` summary lines of the given logs."""
import json, os, re, sys
V = os.path.dirname(os.path.dirname(os.path.abspath(__file__)))
th = {}
for p in sys.argv[1:]:
    for l in open(p, errors="replace"):
        m = re.match(r"(C\d\d) tier=thorough seed=(\d+) evaluations=(\d+) distinct_nontrivial=(\d+) wall=([\d.]+)s exit=(\d+)", l)
        if m:
            th[m.group(1)] = m.groups()
print("| check | quick: evaluations (of which fixed cases) | distinct non-trivial | quick wall | thorough: evaluations | distinct non-trivial | thorough wall |")
print("|---|---|---|---|---|---|---|")
for i in range(1, 20):
    c = "C%02d" % i
    e = json.load(open(os.path.join(V, "evidence", c + ".json")))
    cv = e["coverage"]
    t = th.get(c)
    print("| %s | %d (%d) | %d | %.0f s | %s | %s | %s |" % (c, cv["evaluations"], cv.get("fixed_cases_run", 0), cv["distinct_nontrivial"], e["wall_s"],
          t[2] if t else "-", t[3] if t else "-", ("%.0f s" % float(t[4])) if t else "-"))
