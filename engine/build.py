"""Builds the macro from the working tree (content-hash keyed), compiles and runs probes.

Exit-code discipline: anything that goes wrong here that is not the code under test misbehaving
raises InfraError (=> exit 2, never a violation).
"""
import fcntl
import glob
import hashlib
import json
import os
import shutil
import signal
import subprocess
import sys
import tempfile
import time

VERIF = os.path.dirname(os.path.dirname(os.path.abspath(__file__)))
BUILD = os.path.join(VERIF, ".build")
CACHE = os.path.join(VERIF, ".cache")
TMPROOT = os.path.join(BUILD, "tmp")


class InfraError(Exception):
    pass


def repo():
    return os.environ.get("VERIF_REPO", "/repo")


def _env():
    e = dict(os.environ)
    e["CARGO_NET_OFFLINE"] = "true"
    e.pop("RUSTFLAGS", None)
    e.pop("CARGO_TARGET_DIR", None)
    return e


def tree_hash():
    r = repo()
    h = hashlib.sha256()
    files = []
    for f in ("Cargo.toml", "Cargo.lock", ".cargo/config.toml"):
        if os.path.exists(os.path.join(r, f)):
            files.append(f)
    for root, _dirs, fs in os.walk(os.path.join(r, "src")):
        for f in fs:
            files.append(os.path.relpath(os.path.join(root, f), r))
    for f in sorted(files):
        h.update(f.encode() + b"\0")
        with open(os.path.join(r, f), "rb") as fh:
            h.update(fh.read())
        h.update(b"\0")
    return h.hexdigest()[:16]


_MACRO = {}


def macro():
    """(hash, path of libenum_tools.so) for the current working tree; builds if needed."""
    th = tree_hash()
    if th in _MACRO:
        return th, _MACRO[th]
    os.makedirs(BUILD, exist_ok=True)
    tdir = os.path.join(BUILD, "macro-" + th)
    so = os.path.join(tdir, "debug", "libenum_tools.so")
    lock = open(os.path.join(BUILD, "macro.lock"), "w")
    fcntl.flock(lock, fcntl.LOCK_EX)
    try:
        if os.path.isdir(tdir):
            try:
                os.utime(tdir, None)            # mark as in use
            except OSError:
                pass
        if not os.path.exists(so + ".ok"):
            # drop macro builds of other trees, but only ones nobody has used for three hours
            now = time.time()
            for o in glob.glob(os.path.join(BUILD, "macro-[0-9a-f]*")):
                try:
                    if o != tdir and now - os.path.getmtime(o) > 3 * 3600:
                        shutil.rmtree(o, ignore_errors=True)
                except OSError:
                    pass
            cmd = ["cargo", "build", "--offline", "--lib", "--target-dir", tdir]
            p = subprocess.run(cmd, cwd=repo(), env=_env(), stdout=subprocess.PIPE,
                               stderr=subprocess.STDOUT, text=True)
            if p.returncode != 0 or not os.path.exists(so):
                raise InfraError("macro build failed in %s:\n%s" % (repo(), p.stdout[-4000:]))
            open(so + ".ok", "w").write(th)
    finally:
        fcntl.flock(lock, fcntl.LOCK_UN)
        lock.close()
    _MACRO[th] = so
    return th, so


def _tmpdir():
    os.makedirs(TMPROOT, exist_ok=True)
    return tempfile.mkdtemp(prefix="p%d-" % os.getpid(), dir=TMPROOT)


def cleanup_tmp():
    """Remove stale per-compile temp dirs (older than an hour). Other check runs may be using the
    same root concurrently, so live directories are never touched; every compile removes its own."""
    try:
        now = time.time()
        for d in os.listdir(TMPROOT):
            p = os.path.join(TMPROOT, d)
            if now - os.path.getmtime(p) > 3600:
                shutil.rmtree(p, ignore_errors=True)
    except OSError:
        pass


def prune_cache(max_age_s=3 * 3600):
    """Drop compile caches of other trees - but only stale ones: checks against other trees (mutant
    self-tests, background runs) may be using theirs right now."""
    th = tree_hash()
    if not os.path.isdir(CACHE):
        return
    now = time.time()
    try:
        os.makedirs(os.path.join(CACHE, th), exist_ok=True)
        os.utime(os.path.join(CACHE, th), None)
    except OSError:
        pass
    for d in os.listdir(CACHE):
        p = os.path.join(CACHE, d)
        try:
            if d != th and now - os.path.getmtime(p) > max_age_s:
                shutil.rmtree(p, ignore_errors=True)
        except OSError:
            pass


FLAGS_VERSION = 5       # bump when the rustc command line changes (invalidates cached verdicts)

STATS = {"compiles": 0, "compile_cache_hits": 0, "runs": 0, "compile_s": 0.0}


_OWN_BINS = set()


def _cleanup_own_bins():
    for p in list(_OWN_BINS):
        try:
            os.remove(p)
        except OSError:
            pass


import atexit
atexit.register(_cleanup_own_bins)


class Compiled:
    text = None

    def __init__(self, ok, stderr, path=None, rc=0):
        self.ok = ok
        self.stderr = stderr
        self.path = path
        self.rc = rc


def _cache_path(key):
    th, _ = macro()
    d = os.path.join(CACHE, th, key[:2])
    os.makedirs(d, exist_ok=True)
    return os.path.join(d, key)


def rustc(source, mode="bin", crate_name="probe", externs=None, edition="2021", extra=(),
          use_cache=True, timeout=600):
    """Compile `source`.
    mode: 'bin'   -> executable (kept in cache until explicitly dropped)
          'check' -> metadata only (accept/reject + diagnostics)
          'rlib'  -> library
          'expand'-> -Zunpretty=expanded text in .stderr? no: returned in Compiled.path file
    """
    th, so = macro()
    externs = externs or {}
    key = hashlib.sha256(json.dumps([FLAGS_VERSION, source, mode, crate_name, sorted(externs.items()), edition,
                                     list(extra)]).encode()).hexdigest()[:32]
    cp = _cache_path(key)
    # executables are private to the process that built them (another process may delete its own at any time)
    meta = cp + (".%d.json" % os.getpid() if mode == "bin" else ".json")
    if use_cache and os.path.exists(meta):
        try:
            j = json.load(open(meta))
            if (not j["ok"]) or j["path"] is None or os.path.exists(j["path"]):
                STATS["compile_cache_hits"] += 1
                c = Compiled(j["ok"], j["stderr"], j["path"], j["rc"])
                c.text = j.get("text")
                return c
        except Exception:
            pass
    td = _tmpdir()
    try:
        src = os.path.join(td, crate_name + ".rs")
        with open(src, "w") as f:
            f.write(source)
        cmd = ["rustc", "--edition", edition, "--crate-name", crate_name, "-C", "debuginfo=0",
               "--extern", "enum_tools=" + so, "-L", "dependency=" + os.path.dirname(so),
               "-L", "dependency=" + os.path.join(os.path.dirname(so), "deps")]
        env = _env()
        out = None
        final = None
        if mode == "bin":
            final = cp + ".%d.bin" % os.getpid()
            out = os.path.join(td, "out.bin")
            cmd += ["--crate-type", "bin", "-C", "debug-assertions=on", "-C", "overflow-checks=on",
                    "-C", "opt-level=0", "-C", "codegen-units=4", "-o", out]
        elif mode == "check":
            cmd += ["--crate-type", "lib", "--emit=metadata", "--out-dir", td]
        elif mode == "checkbin":
            cmd += ["--crate-type", "bin", "--emit=metadata", "--out-dir", td]
        elif mode == "rlib":
            final = os.path.join(os.path.dirname(cp), "lib" + os.path.basename(cp) + ".rlib")
            out = os.path.join(td, "lib%s.rlib" % crate_name)
            cmd += ["--crate-type", "rlib", "-C", "debug-assertions=on", "-C", "overflow-checks=on",
                    "-o", out]
        elif mode == "expand":
            final = cp + ".expanded"
            out = os.path.join(td, "out.expanded")
            cmd += ["--crate-type", "lib", "-Zunpretty=expanded", "-o", out]
            env["RUSTC_BOOTSTRAP"] = "1"
        else:
            raise ValueError(mode)
        for name, path in sorted(externs.items()):
            cmd += ["--extern", "%s=%s" % (name, path)]
        cmd += list(extra)
        cmd.append(src)
        t0 = time.time()
        for attempt in range(3):
            if not os.path.exists(src):          # the temp dir vanished under us: recreate it
                os.makedirs(td, exist_ok=True)
                with open(src, "w") as f:
                    f.write(source)
            try:
                p = subprocess.run(cmd, env=env, stdout=subprocess.PIPE, stderr=subprocess.PIPE,
                                   text=True, timeout=timeout, cwd=td)
            except subprocess.TimeoutExpired:
                raise InfraError("rustc timed out after %ds" % timeout)
            if p.returncode != 0 and ("extern location for" in p.stderr or "can't find crate for `lib" in p.stderr
                                      or "can't find crate for `enum_tools`" in p.stderr):
                raise InfraError("harness extern crate problem:\n" + p.stderr[-1500:])
            if p.returncode != 0 and ("error: linking with" in p.stderr or "No space left" in p.stderr
                                      or "Cannot allocate memory" in p.stderr or "could not write output" in p.stderr
                                      or "couldn't create a temp dir" in p.stderr or "error writing dependencies" in p.stderr
                                      or "failed to write" in p.stderr):
                if attempt == 2:
                    raise InfraError("linker/system failure (not the code under test):\n" + p.stderr[-2000:])
                time.sleep(0.5)
                continue
            break
        STATS["compiles"] += 1
        STATS["compile_s"] += time.time() - t0
        if p.returncode < 0 or "internal compiler error" in p.stderr or p.returncode not in (0, 1):
            raise InfraError("rustc crashed (rc=%s):\n%s" % (p.returncode, p.stderr[-3000:]))
        ok = p.returncode == 0
        if ok and out is not None and not os.path.exists(out):
            raise InfraError("rustc succeeded but produced no output")
        text = None
        if ok and mode == "expand":
            with open(out) as f:
                text = f.read()
            out = final = None
        if ok and final is not None:
            os.makedirs(os.path.dirname(final), exist_ok=True)
            os.replace(out, final)
            out = final
        res = Compiled(ok, (p.stderr if len(p.stderr) <= 2000000 else p.stderr[:1000000] + "\n...[truncated]...\n" + p.stderr[-1000000:]), out if ok else None, p.returncode)
        res.text = text
        if ok and mode == "bin":
            _OWN_BINS.add(out)
            _OWN_BINS.add(meta)
        if use_cache:
            os.makedirs(os.path.dirname(meta), exist_ok=True)
            with open(meta + ".tmp%d" % os.getpid(), "w") as f:
                json.dump({"ok": res.ok, "stderr": res.stderr, "path": res.path, "rc": res.rc, "text": text}, f)
            os.replace(meta + ".tmp%d" % os.getpid(), meta)
        return res
    finally:
        shutil.rmtree(td, ignore_errors=True)


def drop(compiled):
    """Remove a process-private binary (shared artefacts such as rlibs are left to the cache pruning)."""
    if compiled.path and compiled.path.endswith(".bin") and os.path.exists(compiled.path):
        try:
            os.remove(compiled.path)
        except OSError:
            pass


class RunResult:
    def __init__(self, lines, rc, stderr):
        self.lines = lines
        self.rc = rc
        self.stderr = stderr

    @property
    def aborted(self):
        return self.rc != 0


def run(path, script_text, timeout=300):
    STATS["runs"] += 1
    try:
        p = subprocess.run([path], input=script_text, stdout=subprocess.PIPE,
                           stderr=subprocess.PIPE, text=True, timeout=timeout,
                           env={"RUST_BACKTRACE": "0", "PATH": os.environ.get("PATH", "")})
    except subprocess.TimeoutExpired:
        raise InfraError("probe timed out (watchdog %ds)" % timeout)
    lines = p.stdout.split("\n")
    if lines and lines[-1] == "":
        lines.pop()
    return RunResult(lines, p.returncode, p.stderr[-4000:])


def expanded_text(compiled):
    return compiled.text


def tool_versions():
    def v(cmd):
        try:
            return subprocess.run(cmd, stdout=subprocess.PIPE, stderr=subprocess.STDOUT,
                                  text=True).stdout.strip().split("\n")[0]
        except Exception as e:
            return "unavailable: %s" % e
    import hypothesis
    return {"rustc": v(["rustc", "--version"]), "cargo": v(["cargo", "--version"]),
            "hypothesis": hypothesis.__version__, "python": sys.version.split()[0]}
