"""Reference model of a derivable enum. Pure Python, built from the abstract spec only
(never from macro output).

Spec (JSON-serialisable dict):
  {"repr": "i8",
   "vis": "pub" | "pub(crate)" | "pub(super)" | "" ...,
   "enum_attrs": ["#[allow(dead_code)]", ...]      foreign attributes on the enum
   "variants": [{"ident": "A", "disc": "-0x1_0i8" | None, "rename": "x" | None,
                 "rename_raw": bool, "attrs": ["/// doc", ...]}, ...]}   declaration order
"""
import re

REPRS = ["u8", "i8", "u16", "i16", "u32", "i32", "u64", "i64", "u128", "i128", "usize", "isize"]
PTR_BITS = 64

I64_MIN = -(2 ** 63)
I64_MAX = 2 ** 63 - 1


def repr_bits(r):
    if r in ("usize", "isize"):
        return PTR_BITS
    return int(r[1:])


def repr_signed(r):
    return r[0] == "i"


def repr_range(r):
    b = repr_bits(r)
    if repr_signed(r):
        return -(2 ** (b - 1)), 2 ** (b - 1) - 1
    return 0, 2 ** b - 1


def repr_domain(r):
    """Values of repr r that are inside the documented i64 window."""
    lo, hi = repr_range(r)
    return max(lo, I64_MIN), min(hi, I64_MAX)


def guessed_size(r):
    """The macro's documented guess (usize/isize counted as 4)."""
    return {"u8": 1, "i8": 1, "u16": 2, "i16": 2, "u32": 4, "i32": 4, "usize": 4, "isize": 4,
            "u64": 8, "i64": 8, "u128": 16, "i128": 16}[r]


_SUFFIX = re.compile(r"(u8|i8|u16|i16|u32|i32|u64|i64|u128|i128|usize|isize)$")


def eval_literal(text):
    """Value of an (optionally negated) Rust integer literal, by the language rules."""
    t = text.strip()
    neg = False
    if t.startswith("-"):
        neg = True
        t = t[1:].strip()
    # a hex literal may end in digits that look like a suffix start (e.g. 0x1u8 is 1u8; 0xbu8?):
    # rustc lexes the suffix as the trailing identifier-like part after the digits of the base.
    low = t
    if low.startswith(("0x", "0X")):
        base, body = 16, low[2:]
        m = re.match(r"^([0-9a-fA-F_]*)(.*)$", body)
    elif low.startswith(("0o", "0O")):
        base, body = 8, low[2:]
        m = re.match(r"^([0-7_]*)(.*)$", body)
    elif low.startswith(("0b", "0B")):
        base, body = 2, low[2:]
        m = re.match(r"^([01_]*)(.*)$", body)
    else:
        base, body = 10, low
        m = re.match(r"^([0-9_]*)(.*)$", body)
    digits, suffix = m.group(1), m.group(2)
    if suffix and not _SUFFIX.fullmatch(suffix):
        raise ValueError("bad literal %r" % text)
    d = digits.replace("_", "")
    if not d:
        raise ValueError("bad literal %r" % text)
    v = int(d, base)
    return -v if neg else v


class RefEnum:
    def __init__(self, spec):
        self.spec = spec
        self.repr = spec["repr"]
        self.lo, self.hi = repr_range(self.repr)
        live = [v for v in spec["variants"] if not v.get("cfg_off")]
        self.live = live
        vals = []
        last = -1
        for i, v in enumerate(live):
            if v.get("disc") is not None:
                val = eval_literal(v["disc"])
            else:
                val = last + 1
            last = val
            vals.append(val)
        self.values = vals                                  # by declaration index
        self.names = [v["rename"] if v.get("rename") is not None else v["ident"] for v in live]
        self.idents = [v["ident"] for v in live]
        self.n = len(vals)
        self.order = sorted(range(self.n), key=lambda i: vals[i])   # decl indexes in value order
        self.sorted_values = [vals[i] for i in self.order]
        self.sorted_names = [self.names[i] for i in self.order]
        self.by_value = {vals[i]: i for i in range(self.n)}
        self.pos = {i: p for p, i in enumerate(self.order)}         # decl index -> sorted position
        # runs
        runs = []
        b = self.sorted_values[0]
        l = b
        for x in self.sorted_values[1:]:
            if x != l + 1:
                runs.append((b, l))
                b = x
            l = x
        runs.append((b, l))
        self.runs = runs
        self.gapless = len(runs) == 1
        self.min = self.sorted_values[0]
        self.max = self.sorted_values[-1]

    # --- validity of the spec against the documented domain -------------------------------
    def in_domain(self):
        if not (1 <= self.n <= 65534):
            return False
        if len(set(self.values)) != self.n:
            return False
        lo, hi = repr_domain(self.repr)
        return all(lo <= v <= hi for v in self.values)

    # --- point functions ------------------------------------------------------------------
    def try_from(self, n):
        return n if n in self.by_value else None

    def next(self, i):
        p = self.pos[i]
        return self.sorted_values[p + 1] if p + 1 < self.n else None

    def next_back(self, i):
        p = self.pos[i]
        return self.sorted_values[p - 1] if p > 0 else None

    def from_str_candidates(self, s):
        """decl indexes of all variants whose name is s."""
        return [i for i in range(self.n) if self.names[i] == s]

    def has_duplicate_names(self):
        return len(set(self.names)) != self.n

    def range_values(self, i, j):
        a, b = self.values[i], self.values[j]
        return [v for v in self.sorted_values if a <= v <= b]

    def labels(self):
        neg_later = any(b < 0 for (b, _) in self.runs[1:])
        return {
            "repr": self.repr,
            "shape": "gapless" if self.gapless else "holes",
            "runs": (str(len(self.runs)) if len(self.runs) <= 9 else "10-16" if len(self.runs) <= 16 else
                     "17-64" if len(self.runs) <= 64 else "65+"),
            "touch_type_min": self.min == self.lo,
            "touch_type_max": self.max == self.hi,
            "neg_later_run": neg_later,
            "min_nonzero": self.min != 0,
            "size": ("1" if self.n == 1 else "2-8" if self.n <= 8 else "9-24" if self.n <= 24 else
                     "25-80" if self.n <= 80 else "81-255" if self.n <= 255 else "256+"),
            "perm": "identity" if self.order == list(range(self.n)) else "permuted",
            "name_bytes": (lambda t: "<255" if t < 255 else "255-257" if t <= 257 else "258-65534" if t < 65535 else
                           "65535-65537" if t <= 65537 else "65538+")(sum(len(x.encode("utf-8")) for x in self.names)),
        }


# ------------------------------------------------------------------------------------------------
# iterator model: a list with two cursors (double-ended, exact-size, fused)

FINISHERS = ["collect", "rev", "fold", "rfold", "last", "count", "len", "foreach", "revfold",
             "skiplast", "stepby2", "rposition", "find", "rfind", "reduce"]
PARAM_FINISHERS = ["takerev", "skiprev", "position"]
ORD_FINISHERS = ["max", "min"]               # only where the item type is Ord (names; enums that also derive Ord)     # adaptor chains whose next_back relies on len() / nth_back()


def ordkey(x):
    """Rust's Ord for the item types used: integers numerically, &str by bytes."""
    return x.encode("utf-8") if isinstance(x, str) else x


def run_iter_model(items, ops, show):
    """items: list of python values in iteration order; ops: list of op tokens as in probe_rt.
    Returns the transcript string the probe must print."""
    lo, hi = 0, len(items)          # remaining = items[lo:hi]
    out = []

    def opt(x):
        return "N" if x is None else "S" + show(x)

    def lst(xs):
        return "[" + ",".join(show(x) for x in xs) + "]"

    for k, op in enumerate(ops):
        rem = hi - lo
        if op == "n":
            if rem > 0:
                out.append(opt(items[lo])); lo += 1
            else:
                out.append("N")
        elif op == "b":
            if rem > 0:
                hi -= 1; out.append(opt(items[hi]))
            else:
                out.append("N")
        elif op.startswith("nth:"):
            n = int(op[4:])
            if n < rem:
                out.append(opt(items[lo + n])); lo += n + 1
            else:
                lo = hi; out.append("N")
        elif op.startswith("nthb:"):
            n = int(op[5:])
            if n < rem:
                hi -= n + 1; out.append(opt(items[hi]))
            else:
                hi = lo; out.append("N")
        elif op == "l":
            out.append("L%d" % rem)
        elif op == "h":
            out.append("H%d,%d" % (rem, rem))
        else:
            assert k == len(ops) - 1, "finisher must be last"
            xs = items[lo:hi]
            if op == "collect":
                out.append(lst(xs))
            elif op == "rev":
                out.append(lst(xs[::-1]))
            elif op == "fold":
                out.append("F" + "".join(show(x) + ";" for x in xs))
            elif op == "rfold":
                out.append("R" + "".join(show(x) + ";" for x in xs[::-1]))
            elif op == "last":
                out.append(opt(xs[-1]) if xs else "N")
            elif op == "count":
                out.append("C%d" % len(xs))
            elif op == "len":
                out.append("L%d" % len(xs))
            elif op == "foreach":
                out.append("E" + "".join(show(x) + ";" for x in xs))
            elif op == "revfold":
                out.append("V" + "".join(show(x) + ";" for x in xs[::-1]))
            elif op == "skiplast":
                out.append(opt(xs[-1]) if len(xs) > 1 else "N")
            elif op == "stepby2":
                out.append(lst(xs[::2]))
            elif op == "find":
                out.append(opt(xs[0]) if xs else "N")
            elif op in ("rfind", "reduce"):
                out.append(opt(xs[-1]) if xs else "N")
            elif op.startswith("position:"):
                k = int(op[9:])
                out.append("P%d" % k if k < len(xs) else "PN")
            elif op == "max":
                out.append(opt(max(xs, key=ordkey)) if xs else "N")
            elif op == "min":
                out.append(opt(min(xs, key=ordkey)) if xs else "N")
            elif op == "rposition":
                out.append("P%d" % (len(xs) - 1) if xs else "PN")
            elif op.startswith("takerev:"):
                out.append(lst(xs[:int(op[8:])][::-1]))
            elif op.startswith("skiprev:"):
                out.append(lst(xs[int(op[8:]):][::-1]))
            else:
                raise ValueError(op)
    return " ".join(out)


def hexs(s):
    return "x" + s.encode("utf-8").hex()


def unhexs(h):
    return bytes.fromhex(h[1:]).decode("utf-8")
