"""One shard = one Python process running Hypothesis over a property's case strategy.

usage: python -m engine.shard <prop> <tier> <seed> <shard_idx> <n_examples> <outfile>
Writes a JSON result; exit code is always 0 unless the shard itself crashed.
"""
import importlib
import json
import os
import sys
import time
import traceback

from hypothesis import HealthCheck, Phase, Verbosity, given, seed, settings

from . import build
from . import judge

SHRINK_BUDGET = 80     # real executions allowed after the first failure


def shard_seed(base, prop, idx):
    import hashlib
    h = hashlib.sha256(("%d/%s/%d" % (base, prop, idx)).encode()).digest()
    return int.from_bytes(h[:8], "big")


def main(argv):
    prop, tier, base_seed, idx, n_examples, outfile = argv[0], argv[1], int(argv[2]), int(argv[3]), int(argv[4]), argv[5]
    mod = importlib.import_module("engine.props." + prop)
    res = {"shard": idx, "seed": shard_seed(base_seed, prop, idx), "evaluations": 0, "nontrivial_fps": [],
           "labels": {}, "sub": {}, "samples": [], "violation": None, "infra": None, "excluded": {},
           "shrink_runs": 0, "wall_s": 0.0}
    st = {"failed": False, "after_fail": 0, "best_json": None, "best": None}
    fps = set()
    cover = {}
    t0 = time.time()

    stop_flag = os.path.join(os.path.dirname(os.path.abspath(outfile)), "STOP")

    def body(case):
        cj = json.dumps(case, sort_keys=True)
        stop = os.path.exists(stop_flag)        # another shard already delivered a shrunk violation
        if stop and not st["failed"]:
            return
        if st["failed"]:
            if (stop or st["after_fail"] >= SHRINK_BUDGET) and cj != st["best_json"]:
                return
            st["after_fail"] += 1
        if res["infra"] is not None:
            return
        try:
            out = mod.run_case(case)
        except build.InfraError as e:
            res["infra"] = "%s\ncase: %s" % (e, cj[:3000])
            return
        except Exception as e:       # a harness bug must never look like a violation
            res["infra"] = "harness exception %s: %s\n%s\ncase: %s" % (type(e).__name__, e, traceback.format_exc()[-2000:], cj[:2000])
            return
        if not st["failed"]:
            res["evaluations"] += 1
            for k, v in out.labels.items():
                d = res["labels"].setdefault(k, {})
                d[v] = d.get(v, 0) + 1
            for k, v in out.sub.items():
                res["sub"][k] = res["sub"].get(k, 0) + v
            for k, v in out.excluded.items():
                res["excluded"][k] = res["excluded"].get(k, 0) + v
            for k, v in out.cover.items():
                cover.setdefault(k, set()).update(v)
            if out.nontrivial and out.fingerprint is not None:
                if out.fingerprint not in fps:
                    fps.add(out.fingerprint)
                    if len(res["samples"]) < 2 and out.sample is not None:
                        res["samples"].append(out.sample)
        if not out.ok:
            st["failed"] = True
            st["best_json"] = cj
            st["best"] = {"case": case, "violations": out.violations[:5]}
            raise AssertionError("violation")

    strategy = mod.cases(tier)
    test = given(strategy)(body)
    test = seed(res["seed"])(test)
    test = settings(max_examples=max(1, n_examples), database=None, deadline=None, derandomize=False,
                    phases=[Phase.generate, Phase.shrink], suppress_health_check=list(HealthCheck),
                    report_multiple_bugs=False, verbosity=Verbosity.quiet, print_blob=False)(test)
    try:
        test()
    except AssertionError:
        pass
    except build.InfraError as e:
        res["infra"] = str(e)
    except Exception as e:        # hypothesis internal errors (Flaky etc.) or harness bugs
        if st["best"] is None:
            res["infra"] = "shard exception: %s\n%s" % (e, traceback.format_exc()[-3000:])
        else:
            res["note"] = "hypothesis raised %s after a violation was recorded" % type(e).__name__
    if st["best"] is not None:
        res["violation"] = st["best"]
        res["shrink_runs"] = st["after_fail"]
        try:
            open(stop_flag, "w").close()
        except OSError:
            pass
    res["nontrivial_fps"] = sorted(fps)
    res["cover"] = {k: sorted(v) for k, v in cover.items()}
    res["wall_s"] = round(time.time() - t0, 2)
    res["build_stats"] = build.STATS
    with open(outfile, "w") as f:
        json.dump(res, f)
    return 0


if __name__ == "__main__":
    sys.exit(main(sys.argv[1:]))
