"""Check driver.

  python -m engine.runner check  <Cxx> [--tier quick|thorough] [--seed N] [--shards K] [--examples N]
  python -m engine.runner replay <file>
  python -m engine.runner setup

Exit codes: 0 property held on everything explored; 1 violation (VIOLATION line printed);
2 infrastructure / inconclusive (never reported as a violation).
"""
import argparse
import hashlib
import importlib
import json
import math
import os
import shutil
import subprocess
import sys
import time

from . import build
from . import judge

VERIF = build.VERIF
EVID = os.path.join(VERIF, "evidence")
REPLAYS = os.path.join(VERIF, "replays")
KNOWN = os.path.join(VERIF, "known_findings.json")

ASSUMPTIONS = [
    "64-bit little-endian linux target; pointer-sized reprs exercised at 64 bit only",
    "probes are compiled by the real rustc at opt-level 0 with debug assertions and overflow checks on",
    "expected values come from a Python reference model built from the abstract enum spec; iterator "
    "expectations are cross-checked in-probe against std::vec::IntoIter over the model-ordered list",
    "property held on everything generated; generated search never establishes absence",
]


def load_known():
    if not os.path.exists(KNOWN):
        return {"findings": [], "fixed": []}
    with open(KNOWN) as f:
        return json.load(f)


def known_for(prop):
    return [k for k in load_known().get("findings", []) if prop in k.get("properties", [])]


def write_replay(prop, tier, seed, viol):
    os.makedirs(REPLAYS, exist_ok=True)
    case = viol["case"]
    for v in viol["violations"]:
        if isinstance(v, dict) and v.get("replay_case"):
            case = v["replay_case"]         # a smaller self-contained case (e.g. one sub-case of a Miri batch)
            break
    body = {"property": prop, "tier": tier, "seed": seed, "tree_hash": build.tree_hash(),
            "case": case, "violations": viol["violations"]}
    h = hashlib.sha256(json.dumps(body["case"], sort_keys=True).encode()).hexdigest()[:12]
    path = os.path.join(REPLAYS, "%s-%s.json" % (prop, h))
    with open(path, "w") as f:
        json.dump(body, f, indent=1, ensure_ascii=False)
    return path


def matches_known(kf, violations, prop=None):
    """A known finding matches when every one of its signature strings occurs in the violation text."""
    leaves = []

    def walk(x):
        if isinstance(x, str):
            leaves.append(x)
        elif isinstance(x, dict):
            for v in x.values():
                walk(v)
        elif isinstance(x, (list, tuple)):
            for v in x:
                walk(v)
    walk(violations)
    text = "\n".join(leaves)
    sig = kf.get("signature", [])
    if isinstance(sig, dict):
        sig = sig.get(prop, sig.get("*", ["\0never"]))
    if not all(s in text for s in sig):
        return False
    only = kf.get("only_lines", {}).get(prop) if isinstance(kf.get("only_lines"), dict) else None
    if only is not None:
        # the finding is keyed on the exact calls that fail: any other failing call is a different violation
        lines = {v.get("line") for v in violations if isinstance(v, dict) and v.get("line") is not None}
        if not lines <= set(only):
            return False
    return True


def cmd_check(args):
    prop = args.prop
    tier = args.tier or os.environ.get("VERIF_TIER") or "quick"
    if tier not in ("quick", "thorough"):
        tier = "quick"
    seed = args.seed if args.seed is not None else int(os.environ.get("VERIF_SEED", "0") or 0)
    t0 = time.time()
    mod = importlib.import_module("engine.props." + prop)
    evid_dir = EVID
    if os.path.realpath(build.repo()) != "/repo":
        # sensitivity runs against a mutated scratch copy must never overwrite the real evidence
        evid_dir = os.path.join(build.BUILD, "evidence-scratch")
    evidence_path = os.path.join(evid_dir, prop + ".json")
    os.makedirs(evid_dir, exist_ok=True)
    try:
        th, so = build.macro()
        build.prune_cache()
    except build.InfraError as e:
        print("INFRA: %s" % e)
        return 2
    exit_code = 0
    known_lines = []
    # 1. dedicated deterministic probes for listed known findings
    for kf in known_for(prop):
        try:
            out = mod.run_case(kf["probe"][prop] if prop in kf.get("probe", {}) else kf["probe"])
        except build.InfraError as e:
            print("INFRA: known-finding probe failed: %s" % e)
            return 2
        if not out.ok and matches_known(kf, out.violations, prop):
            line = "KNOWN-FINDING: property=%s %s" % (prop, kf["what"])
            print(line)
            known_lines.append(line)
        elif not out.ok:
            # the probe fails in a way the file does not list: a different violation
            path = write_replay(prop, tier, seed, {"case": kf["probe"][prop] if prop in kf.get("probe", {}) else kf["probe"],
                                                   "violations": out.violations[:5]})
            print("VIOLATION property=%s replay=%s" % (prop, path))
            exit_code = 1
    # 2. deterministic fixed cases of the property (regressions of repaired defects etc.)
    fixed_cases = getattr(mod, "fixed_cases", lambda tier: [])(tier)
    fixed_run = 0
    fixed_sub = {}

    def _run_fixed(case):
        try:
            return case, mod.run_case(case), None
        except build.InfraError as e:
            return case, None, "fixed case failed: %s" % str(e)[:1500]
        except Exception as e:          # a harness bug must never look like a violation
            import traceback
            return case, None, "harness exception in fixed case: %s\n%s" % (e, traceback.format_exc()[-1500:])
    import concurrent.futures
    with concurrent.futures.ThreadPoolExecutor(max_workers=8) as ex:
        fixed_results = list(ex.map(_run_fixed, fixed_cases))
    for case, out, err in fixed_results:
        if err:
            print("INFRA: " + err)
            return 2
        fixed_run += 1
        for k, v in out.sub.items():
            fixed_sub[k] = fixed_sub.get(k, 0) + v
        if not out.ok:
            path = write_replay(prop, tier, seed, {"case": case, "violations": out.violations[:5]})
            print("VIOLATION property=%s replay=%s" % (prop, path))
            print("  " + json.dumps({k: v for k, v in out.violations[0].items() if k != "replay_case"}, ensure_ascii=False)[:400])
            exit_code = 1
    # 3. generated search, sharded
    total = args.examples or mod.TIERS[tier]
    shards = args.shards or min(16, os.cpu_count() or 16, max(1, total))
    per = int(math.ceil(total / shards))
    tmp = os.path.join(build.BUILD, "shards-%s-%d" % (prop, os.getpid()))
    os.makedirs(tmp, exist_ok=True)
    procs = []
    for i in range(shards):
        outf = os.path.join(tmp, "s%d.json" % i)
        logf = open(os.path.join(tmp, "s%d.log" % i), "w")
        p = subprocess.Popen([sys.executable, "-m", "engine.shard", prop, tier, str(seed), str(i), str(per), outf],
                             cwd=VERIF, stdout=logf, stderr=subprocess.STDOUT)
        procs.append((i, p, outf, logf))
    watchdog = getattr(mod, "WATCHDOG_S", {"quick": 1500, "thorough": 6 * 3600})[tier]
    results = []
    infra = []
    for i, p, outf, logf in procs:
        try:
            p.wait(timeout=max(10, watchdog - (time.time() - t0)))
        except subprocess.TimeoutExpired:
            p.kill()
            infra.append("shard %d hit the watchdog (%ds)" % (i, watchdog))
            continue
        finally:
            logf.close()
        if p.returncode != 0 or not os.path.exists(outf):
            log = open(os.path.join(tmp, "s%d.log" % i)).read()[-3000:]
            infra.append("shard %d crashed rc=%s\n%s" % (i, p.returncode, log))
            continue
        with open(outf) as f:
            results.append(json.load(f))
    # merge
    evaluations = sum(r["evaluations"] for r in results)
    fps = set()
    labels, sub, excluded = {}, {}, {}
    cover = {}
    samples = []
    viols = []
    for r in results:
        fps.update(r["nontrivial_fps"])
        for k, d in r["labels"].items():
            dd = labels.setdefault(k, {})
            for v, c in d.items():
                dd[v] = dd.get(v, 0) + c
        for k, v in r["sub"].items():
            sub[k] = sub.get(k, 0) + v
        for k, v in r["excluded"].items():
            excluded[k] = excluded.get(k, 0) + v
        samples.extend(r["samples"])
        for k, v in r.get("cover", {}).items():
            cover.setdefault(k, set()).update(v)
        if r.get("violation"):
            viols.append(r["violation"])
        if r.get("infra"):
            infra.append("shard %d: %s" % (r["shard"], r["infra"]))
    # report violations: smallest case first, one replay per distinct case
    seen = set()
    viols.sort(key=lambda v: len(json.dumps(v["case"])))
    for v in viols:
        # a violation that is exactly a listed known finding is reported as such
        kf_hit = [kf for kf in known_for(prop) if matches_known(kf, v["violations"], prop) and kf.get("suppress_generated")]
        if kf_hit:
            continue
        path = write_replay(prop, tier, seed, v)
        if path in seen:
            continue
        seen.add(path)
        print("VIOLATION property=%s replay=%s" % (prop, path))
        print("  " + json.dumps(v["violations"][0], ensure_ascii=False)[:400])
        exit_code = 1
    if infra and exit_code == 0:
        for m in infra[:5]:
            print("INFRA: " + m[:1200])
        exit_code = 2
    if infra:
        try:
            with open(os.path.join(build.BUILD, "infra.log"), "a") as f:
                f.write("=== %s %s tier=%s seed=%s\n" % (time.strftime("%F %T"), prop, tier, seed))
                for m in infra:
                    f.write(m[:4000] + "\n")
        except OSError:
            pass
    wall = round(time.time() - t0, 2)
    ev = {
        "property_id": prop, "tier": tier, "seed": seed, "level": "exploration",
        "coverage": {
            "evaluations": evaluations + fixed_run,
            "distinct_nontrivial": len(fps),
            "rule": mod.RULE,
            "samples": samples[:5],
            "sub_evaluations": sub,
            "labels": labels,
            "fixed_cases_run": fixed_run,
            "fixed_cases_sub_evaluations": fixed_sub,
            "coverage_sets": {k: {"covered": len(v), "of": getattr(mod, "COVER_TOTALS", {}).get(k)} for k, v in cover.items()},
            "excluded_by_known_finding": excluded,
            "known_findings_reproduced": known_lines,
            "shards": len(results), "shard_seeds": [r["seed"] for r in results],
            "tree_hash": th, "tools": build.tool_versions(),
            "exhaustive": False,
        },
        "assumptions": ASSUMPTIONS + list(getattr(mod, "ASSUMPTIONS", [])),
        "wall_s": wall,
        "violations": len(seen) if exit_code == 1 else 0,
    }
    with open(evidence_path, "w") as f:
        json.dump(ev, f, indent=1, ensure_ascii=False)
    shutil.rmtree(tmp, ignore_errors=True)
    build.cleanup_tmp()
    print("%s tier=%s seed=%d evaluations=%d distinct_nontrivial=%d wall=%.1fs exit=%d" %
          (prop, tier, seed, evaluations + fixed_run, len(fps), wall, exit_code))
    return exit_code


def cmd_replay(args):
    with open(args.file) as f:
        body = json.load(f)
    prop = body["property"]
    mod = importlib.import_module("engine.props." + prop)
    try:
        build.macro()
        out = mod.run_case(body["case"])
    except build.InfraError as e:
        print("INFRA: %s" % e)
        return 2
    if out.ok:
        print("replay: property %s holds on this case" % prop)
        return 0
    print("VIOLATION property=%s replay=%s" % (prop, os.path.abspath(args.file)))
    for v in out.violations[:5]:
        print("  " + json.dumps(v, ensure_ascii=False)[:2000])
    return 1


def cmd_setup(args):
    try:
        th, so = build.macro()
    except build.InfraError as e:
        print("INFRA: %s" % e)
        return 2
    import hypothesis
    import jsonschema  # noqa
    print("setup ok: macro %s, hypothesis %s, %s" % (th, hypothesis.__version__, build.tool_versions()["rustc"]))
    return 0


def main():
    ap = argparse.ArgumentParser()
    sp = ap.add_subparsers(dest="cmd")
    c = sp.add_parser("check")
    c.add_argument("prop")
    c.add_argument("--tier")
    c.add_argument("--seed", type=int)
    c.add_argument("--shards", type=int)
    c.add_argument("--examples", type=int)
    r = sp.add_parser("replay")
    r.add_argument("file")
    sp.add_parser("setup")
    args = ap.parse_args()
    if args.cmd == "check":
        return cmd_check(args)
    if args.cmd == "replay":
        return cmd_replay(args)
    if args.cmd == "setup":
        return cmd_setup(args)
    ap.print_help()
    return 2


if __name__ == "__main__":
    sys.exit(main())
