"""Hypothesis strategies: EnumSpec, Config, Context, iterator histories.

Sound first: only declarations/configurations inside the documented domain (DESIGN.md 3.5 lists
the deliberate exclusions). Construction, not rejection: no filter()/assume() on the main path.
"""
import random

from hypothesis import strategies as st

from . import model as M
from . import emit as E

KEYWORDS = {"as", "break", "const", "continue", "crate", "else", "enum", "extern", "false", "fn", "for",
            "if", "impl", "in", "let", "loop", "match", "mod", "move", "mut", "pub", "ref", "return",
            "self", "Self", "static", "struct", "super", "trait", "true", "type", "unsafe", "use",
            "where", "while", "async", "await", "dyn", "abstract", "become", "box", "do", "final",
            "macro", "override", "priv", "typeof", "unsized", "virtual", "yield", "try", "gen",
            "union", "macro_rules", "raw", "safe", "auto", "default"}

# identifiers the derive itself may define on the enum (excluded for variants by rule)
RESERVED = {"MIN", "MAX", "iter", "names", "range", "next", "next_back", "into", "try_from", "as_str",
            "from_str"}

IDENT_POOL = [
    "A", "B", "C", "D", "F", "G", "H", "K", "Q", "X", "Y", "Z", "Aa", "Ab", "Ba", "Zz",
    "Alpha", "Beta", "Gamma", "Delta", "Epsilon", "Zeta", "Eta", "Theta", "Iota", "Kappa", "Lambda",
    "Red", "Green", "Blue", "North", "South", "East", "West", "Up", "Down", "Left", "Right",
    "One", "Two", "Three", "Four", "Five", "Six", "Seven", "Eight", "Nine", "Ten",
    "Some", "None", "Ok", "Err", "Option", "Result", "Vec", "String", "Box", "Iterator", "Copy",
    "Default", "From", "Into", "TryFrom", "FromStr", "Debug", "Display", "Item", "Error", "Output",
    "V0", "V1", "V2", "V3", "V10", "V_1", "V__", "X_y_z", "_A", "_0", "__x", "a", "b", "snake_case", "lower",
    "camelCase", "SCREAMING_CASE", "Mixed_Case9", "r2d2", "T", "U", "R", "I", "N", "S",
    "Ä", "Öl", "Ünï", "Ñandú", "Straße", "Ελλάδα", "Привет", "名前", "变量", "한글", "ℵ", "ǅ", "µ",
    "Ａ", "é", "é",
    "Min", "Max", "Iter", "Names", "Range", "Next", "Len", "Value", "Inner", "Fwd", "Bwd",
]
IDENT_POOL = [i for i in dict.fromkeys(IDENT_POOL) if i not in KEYWORDS and i not in RESERVED]


def _known_listed(kid):
    import json
    import os
    try:
        p = os.path.join(os.path.dirname(os.path.dirname(os.path.abspath(__file__))), "known_findings.json")
        return any(k.get("id") == kid for k in json.load(open(p)).get("findings", []))
    except Exception:
        return False


# Known finding KF2: a variant named like an enabled MIN / MAX constant shadows it inside the generated code.
# While the finding is listed, such identifiers are excluded by construction; if it is ever removed from the
# file the pool contains them again and a violation is reported.
if not _known_listed("KF2"):
    IDENT_POOL += ["MAX", "MIN"]

NASTY_NAMES = ["", " ", "  lead", "trail ", "a b", "\"", "\\", "\\n", "\n", "\t", "{}", "{0}", "{:?}", "{{", "}",
               "%s", "'", "\0", "a\0b", "a\0", "ab\0\0", "é", "é", "名前", "🦀", "A*", "a-b", "a::b", "#", "r#\"x\"#",
               "​", "﻿", "ß", "SS", "İ", "i̇", "x" * 300, "\r\n", "\r", "null", "None", "Self",
               " ", "‮", "\x7f", "\x1b[0m"] + ["n" * k for k in (7, 8, 9, 15, 16, 17, 31, 32, 33, 63, 64, 65, 127, 128, 255, 256, 257)] + ["é" * k for k in (4, 8, 16)] + ["r#async", "r#", "r#type", "b'x'", "c\"x\""]

GAPS = [1, 1, 1, 2, 2, 3, 7, 100, 1000, 10 ** 6, 2 ** 31, 2 ** 32, 2 ** 40, 2 ** 62,
        # multiples and neighbours of the type sizes (arithmetic done modulo a narrower width)
        255, 256, 257, 65535, 65536, 65537, 2 ** 24, 2 ** 32 - 1, 2 ** 32 + 1]

ENUM_ATTRS = ["#[allow(dead_code)]", "#[doc = \"an enum\"]", "/// doc comment on the enum", "#[non_exhaustive]",
              "#[cfg_attr(all(), allow(unused))]", "#[deprecated]", "#[must_use]", "#[doc(hidden)]",
              "/** block doc */", "#[cfg(all())]", "#[allow(clippy::all)]", "#[allow(deprecated)]", "#[warn(missing_docs)]",
              "#[allow(non_camel_case_types)]", "#[warn(unused)]", "#[allow(unreachable_patterns)]"]
VARIANT_ATTRS = ["/// doc comment", "#[doc = \"a variant\"]", "#[allow(dead_code)]", "#[cfg(all())]",
                 "#[deprecated]", "#[cfg_attr(all(), doc = \"x\")]", "/** block */", "#[doc(hidden)]",
                 "#[cfg_attr(any(), enum_tools(rename = \"never\"))]", "#[allow(non_camel_case_types)]"]


def chance(draw, p):
    """True with probability ~p; shrinks towards False."""
    return draw(st.integers(0, 99)) >= 100 - int(round(p * 100))


def spell(value, repr_, style, rnd_bits):
    """A literal text for `value` in the given style. rnd_bits: small int for underscore placement."""
    neg = value < 0 or (value == 0 and rnd_bits == 15 and repr_[0] == "i")        # -0 is a legal spelling of 0
    mag = -value if neg else value
    base, suffix = style
    if base == "dec":
        body = str(mag)
    elif base == "hex":
        body = "0x%x" % mag if rnd_bits & 1 else "0x%X" % mag
    elif base == "oct":
        body = "0o%o" % mag
    elif base == "bin":
        body = "0b%s" % bin(mag)[2:]
    elif base == "dec_":
        s = str(mag)
        # thousands separators, plus a trailing underscore sometimes
        parts = []
        while len(s) > 3:
            parts.append(s[-3:])
            s = s[:-3]
        parts.append(s)
        body = "_".join(reversed(parts))
        if rnd_bits & 2:
            body += "_"
    elif base == "hex_":
        s = "%x" % mag
        body = "0x_" + "_".join(s[i:i + 2] for i in range(0, len(s), 2))
    elif base == "bin_":
        s = bin(mag)[2:]
        body = "0b" + "_".join(s[i:i + 4] for i in range(0, len(s), 4)) + ("_" if rnd_bits & 2 else "")
    elif base == "lead0":
        body = "00" + str(mag)
    else:
        raise ValueError(base)
    if suffix:
        if base in ("hex", "hex_") and suffix:
            # a hex body may not run into the suffix ambiguously: 0x1f + i8 is fine for rustc
            # (suffix starts at the first non-hex-digit char 'i'/'u'), keep as is
            pass
        body += ("_" if (rnd_bits & 4 and not body.endswith("_")) else "") + repr_
    return ("-" if neg else "") + (" " if neg and rnd_bits & 8 else "") + body


LITERAL_STYLES = [("dec", False)] * 6 + [("hex", False), ("oct", False), ("bin", False), ("dec_", False),
                                          ("hex_", False), ("bin_", False), ("lead0", False),
                                          ("dec", True), ("hex", True), ("dec_", True), ("bin", True), ("oct", True)]


def _fit_layout(lo, hi, n, cuts, gaps):
    """Clip run structure so that it fits in [lo, hi]. Returns (run_lengths, gaps)."""
    total = hi - lo + 1
    n = min(n, total)
    cuts = sorted(set(c for c in cuts if 0 < c < n))
    avail = total - n
    cuts = cuts[:max(0, min(len(cuts), avail))]
    lens = []
    prev = 0
    for c in cuts:
        lens.append(c - prev)
        prev = c
    lens.append(n - prev)
    k = len(lens)
    gaps = list(gaps[:k - 1]) + [1] * max(0, k - 1 - len(gaps))
    remaining = avail
    out = []
    for i, g in enumerate(gaps):
        left_after = (k - 1) - (i + 1)
        g = max(1, min(g, remaining - left_after))
        out.append(g)
        remaining -= g
    return lens, out


DEFAULT_PROFILE = {
    "reprs": M.REPRS,
    "sizes": [("small", 80), ("medium", 10), ("large", 7), ("full8", 3)],
    "shapes": ["gapless", "holes", "holes", "many", "lots"],
    "renames": 0.3,
    "dups": 0.08,
    "literals": "mixed",
    "attrs": 0.25,
    "vis": ["pub", "pub", "pub(crate)", "pub(super)", ""],
    "orders": ["identity", "reverse", "perm", "perm", "by_name", "runs_rotated"],
    "cfg_off": 0.05,
    "anchors": ["min", "max", "zero", "neg", "rand", "rand", "narrow_max", "narrow_min"],
}


def profile(**kw):
    p = dict(DEFAULT_PROFILE)
    p.update(kw)
    return p


@st.composite
def enum_specs(draw, prof=None):
    prof = prof or DEFAULT_PROFILE
    r = draw(st.sampled_from(prof["reprs"]))
    classes = [c for c, w in prof["sizes"] for _ in range(w)]
    cls = draw(st.sampled_from(classes))
    if cls == "full8":
        # an enum that fills (or nearly fills) an 8-bit repr: index arithmetic and lengths must not wrap
        eight = [x for x in prof["reprs"] if x in ("u8", "i8")]
        if eight:
            r = draw(st.sampled_from(eight))
    lo, hi = M.repr_domain(r)
    total = hi - lo + 1
    if cls == "small":
        n = draw(st.integers(1, 24))
    elif cls == "medium":
        n = draw(st.integers(25, 140))
    elif cls == "large":
        n = draw(st.integers(200, 700))
    elif cls == "full8":
        n = draw(st.sampled_from([256, 256, 256, 255, 254, 129, 128])) if M.repr_bits(r) == 8 else draw(st.integers(256, 400))
    else:
        n = int(cls)
    n = min(n, total)
    shape = draw(st.sampled_from(prof["shapes"])) if n > 1 else "gapless"
    if shape == "gapless":
        kwant = 1
    elif shape == "holes":
        kwant = draw(st.integers(2, min(n, 4)))
    elif shape == "lots" and n >= 12:
        # code that switches strategy above some number of runs (16, 32, 64, ...)
        kwant = draw(st.integers(10, min(n, 40)))
        big = [x for x in (63, 64, 65, 66, 100, 128, 129, 140, 200, 255, 256, 257) if x <= n]
        if big and chance(draw, 0.5):
            kwant = draw(st.sampled_from(big))
    else:
        kwant = draw(st.integers(2, min(n, 9)))
    if kwant > 1:
        cuts = draw(st.lists(st.integers(1, n - 1), min_size=kwant - 1, max_size=kwant - 1, unique=True))
        gaps = draw(st.lists(st.sampled_from(GAPS), min_size=kwant - 1, max_size=kwant - 1))
    else:
        cuts, gaps = [], []
    lens, gaps = _fit_layout(lo, hi, n, cuts, gaps)
    n = sum(lens)
    total = hi - lo + 1
    layout = draw(st.sampled_from(prof.get("layouts", ["free"] * 8 + ["span_pow2", "span_all", "lattice", "pow2", "arith", "arith", "mirrored", "even_runs"])))
    if layout == "span_pow2" and len(lens) >= 2:
        # MAX - MIN exactly on / next to a power of two (bit-set and bitmap style fast paths)
        target = draw(st.sampled_from([7, 8, 9, 15, 16, 17, 31, 32, 33, 63, 64, 65, 127, 128, 129, 255, 256, 257, 65535, 65536]))
        need = target - (n - 1) - (len(gaps) - 1)
        if need >= 1 and target + 1 <= total:
            gaps = [1] * (len(gaps) - 1) + [need]
    elif layout == "span_all" and len(lens) >= 2:
        # sentinel-style enums: the first run at the domain's low end, the last run at its high end
        rest = total - n - (len(gaps) - 1)
        if rest >= 1:
            gaps = [1] * (len(gaps) - 1) + [rest]
    span = n + sum(gaps)
    anchor = draw(st.sampled_from(prof["anchors"]))
    signed = lo < 0
    if anchor == "min":
        start = lo
    elif anchor == "max":
        start = hi - span + 1
    elif anchor == "zero" and signed:
        start = max(lo, min(-(span // 2), hi - span + 1))
    elif anchor == "neg" and signed:
        start = max(lo, -span - draw(st.integers(0, 3)))
        start = min(start, hi - span + 1)
    elif anchor == "narrow_max":
        # the enum's MAX sits exactly on the limit of a (possibly narrower) integer type
        lim = [x for x in (2 ** 7 - 1, 2 ** 8 - 1, 2 ** 15 - 1, 2 ** 16 - 1, 2 ** 31 - 1, 2 ** 32 - 1, 2 ** 63 - 1)
               if lo <= x - span + 1 and x <= hi]
        if r in ("usize", "isize") and lim:
            # pointer-sized reprs: the 32-bit limits are where a guessed width goes wrong
            lim = lim + [x for x in lim if x in (2 ** 31 - 1, 2 ** 32 - 1)] * 3
        start = (draw(st.sampled_from(lim)) - span + 1) if lim else draw(st.integers(lo, hi - span + 1))
    elif anchor == "narrow_min":
        lim = [x for x in (-2 ** 7, -2 ** 15, -2 ** 31, -2 ** 63, 0, 2 ** 8, 2 ** 16, 2 ** 32) if lo <= x and x + span - 1 <= hi]
        if r in ("usize", "isize") and lim:
            lim = lim + [x for x in lim if x in (-2 ** 31, 2 ** 32)] * 3
        start = draw(st.sampled_from(lim)) if lim else draw(st.integers(lo, hi - span + 1))
    else:
        start = draw(st.integers(lo, hi - span + 1))
    values = []
    cur = start
    for i, ln in enumerate(lens):
        values.extend(range(cur, cur + ln))
        cur += ln
        if i < len(gaps):
            cur += gaps[i]
    if layout == "span_all" and len(lens) >= 2:
        shift = lo - values[0]
        values = [v + shift for v in values]
    if layout == "arith" and 3 <= n <= 40:
        # equally spaced isolated values, optionally spanning more than half of the repr ({-100, 0, 100} as i8)
        wide = (hi - lo) // (n - 1)
        step = draw(st.sampled_from([2, 3, 5, 10, 50, 100, 1000, 4096] + ([wide, max(2, wide - 1), max(2, wide // 2 + 1)] if wide >= 2 else [])))
        if step >= 2 and step * (n - 1) <= hi - lo:
            base = draw(st.sampled_from([lo, hi - step * (n - 1), max(lo, -(step * (n - 1)) // 2), 0 if lo <= 0 and step * (n - 1) <= hi else lo]))
            cand = [base + step * i for i in range(n)]
            if cand[0] >= lo and cand[-1] <= hi:
                if n >= 4 and step >= 3 and draw(st.booleans()):
                    # almost equally spaced: one interior value off the grid, end points unchanged
                    j = draw(st.integers(1, n - 2))
                    cand[j] += draw(st.sampled_from([1, -1, step // 2, -(step // 2)]))
                values = cand
    if layout == "even_runs" and 8 <= n <= 60:
        # runs of equal length, or first == last == average with the middle runs uneven (2,1,3,2)
        L = draw(st.integers(2, 4))
        kk = max(4, min(n // L, 8))
        ls = [L] * kk
        if draw(st.booleans()) and kk >= 4:
            a = draw(st.integers(1, kk - 2))
            b = draw(st.integers(1, kk - 2))
            if a != b and ls[a] > 1:
                ls[a] -= 1
                ls[b] += 1
        if draw(st.integers(0, 2)) == 0:
            # equally spaced run starts with the last (or first) run longer than the others
            ls[-1 if draw(st.booleans()) else 0] += draw(st.integers(1, 3))
        g = draw(st.sampled_from([1, 1, 2, 5]))
        cand, cur = [], (0 if lo <= 0 else lo)
        cur = draw(st.sampled_from([cur, lo, max(lo, -20)]))
        for ln in ls:
            cand.extend(range(cur, cur + ln))
            cur += ln + g
        if cand and cand[0] >= lo and cand[-1] <= hi:
            values = cand
            n = len(values)
    if layout == "mirrored" and 4 <= n <= 40 and lo < 0:
        # values mirrored around zero without zero itself (-m..-1, 1..m), a few interior values removed
        m_ = (n + 3) // 2
        if m_ <= min(-lo, hi):
            cand = [x for x in range(-m_, m_ + 1) if x != 0]
            drop = draw(st.lists(st.sampled_from(cand[1:-1]), max_size=2, unique=True)) if len(cand) > 4 else []
            cand = [x for x in cand if x not in drop]
            if len(cand) >= 2:
                values = cand
                n = len(values)
    if layout in ("lattice", "pow2") and 2 <= n <= 40:
        # regularly spaced discriminants (status codes, bit flags): multiples of a step with some missing / powers of two
        if layout == "lattice":
            step = draw(st.sampled_from([2, 3, 4, 5, 8, 10, 16, 100, 256, 1000, 4096, 65536]))
            ks = sorted(draw(st.lists(st.integers(0, 3 * n), min_size=n, max_size=n, unique=True)))
            base = draw(st.sampled_from([0, 0, 1, -step * (ks[-1] // 2), lo]))
            cand = [base + step * k for k in ks]
        else:
            if draw(st.booleans()):
                ks = sorted(draw(st.lists(st.integers(0, 62), min_size=n, max_size=n, unique=True)))
            else:
                # contiguous bit numbers with one or two left out (a flag enum with an unused bit)
                k0 = draw(st.integers(0, max(0, 60 - n)))
                allk = list(range(k0, k0 + n + 2))
                drop = draw(st.lists(st.sampled_from(allk[1:-1]), min_size=1, max_size=2, unique=True))
                ks = [k for k in allk if k not in drop][:n]
            cand = [1 << k for k in ks]
            if draw(st.booleans()):
                cand = [0] + cand[:-1]
        if cand[0] >= lo and cand[-1] <= hi and len(set(cand)) == n:
            values = cand
    assert len(values) == n and values[0] >= lo and values[-1] <= hi, (values[:3], lo, hi)

    small = n <= 24
    seed = draw(st.integers(0, 2 ** 32 - 1)) if not small else 0
    rnd = random.Random(seed)

    # declaration order
    order_kind = draw(st.sampled_from(prof["orders"])) if n > 1 else "identity"
    if order_kind in ("identity", "by_name"):
        order = list(range(n)) if order_kind == "identity" or not small else list(draw(st.permutations(list(range(n)))))
    elif False:
        order = list(range(n))
    elif order_kind == "reverse":
        order = list(range(n - 1, -1, -1))
    elif order_kind == "runs_rotated":
        # the runs declared in rotated order (a later run first), ascending inside each run: every declaration step
        # is +1 except one jump down - e.g. [MAX-1, MAX, MIN, MIN+1]
        starts = [0]
        for ln in lens[:-1]:
            starts.append(starts[-1] + ln)
        if sum(lens) == n and len(starts) > 1:
            cut = starts[draw(st.integers(0, len(starts) - 1))]
        else:                       # a structured layout replaced the run structure: rotate at any position
            cut = draw(st.integers(0, n - 1))
        if values[0] < 0 and 0 in values and draw(st.booleans()):
            # the declaration starts at zero (the first variant can then be implicit) and continues below it
            cut = values.index(0)
        order = list(range(cut, n)) + list(range(0, cut))
    elif small:
        order = list(draw(st.permutations(list(range(n)))))
    else:
        order = list(range(n))
        # block shuffle keeps some implicit-eligible neighbours
        blocks = []
        i = 0
        while i < n:
            b = rnd.randint(1, 12)
            blocks.append(order[i:i + b])
            i += b
        rnd.shuffle(blocks)
        order = [x for b in blocks for x in b]
    decl_values = [values[i] for i in order]

    # identifiers
    if small:
        style = draw(st.sampled_from(["pool", "pool", "letters", "vnum", "pool", "vpad_long"]))
    else:
        style = draw(st.sampled_from(["vnum", "vnum", "vpad", "vpad_long"]))
    if style == "vpad":
        idents = ["V%0*d" % (len(str(n - 1)), i) for i in range(n)]        # all identifiers equally long
    elif style == "vpad_long":
        idents = ["Variant_%05d_x" % i for i in range(n)]
    elif style == "pool":
        idents = draw(st.lists(st.sampled_from(IDENT_POOL), min_size=n, max_size=n, unique=True))
    elif style == "letters":
        idents = [chr(ord("A") + i) for i in range(n)]
    else:
        idents = ["V%d" % i for i in range(n)]

    if small and chance(draw, prof.get("raw_idents", 0.0)):
        # raw identifiers (differential checks only: whether the name is `type` or `r#type` is not asserted anywhere)
        k = draw(st.integers(0, n - 1))
        raw = draw(st.sampled_from(["r#type", "r#fn", "r#match", "r#enum", "r#Self_x", "r#box", "r#async"]))
        if raw not in idents:
            idents[k] = raw
    # literal spellings / implicit
    lit_mode = prof["literals"]
    explicit_policy = draw(st.sampled_from(["all_explicit", "max_implicit", "mixed", "mixed"]))
    variants = []
    prev = -1
    for j in range(n):
        val = decl_values[j]
        can_implicit = (val == prev + 1)
        if explicit_policy == "all_explicit" or not can_implicit:
            implicit = False
        elif explicit_policy == "max_implicit":
            implicit = True
        else:
            implicit = draw(st.booleans()) if small else rnd.random() < 0.5
        disc = None
        if not implicit:
            if lit_mode == "plain":
                stl, bits = ("dec", False), 0
            elif small:
                stl = draw(st.sampled_from(LITERAL_STYLES))
                bits = draw(st.integers(0, 15))
            else:
                stl = rnd.choice(LITERAL_STYLES)
                bits = rnd.randint(0, 15)
            disc = spell(val, r, stl, bits)
            assert M.eval_literal(disc) == val, (disc, val)
        prev = val
        variants.append({"ident": idents[j], "disc": disc})

    # renames
    p_ren = prof["renames"]
    if p_ren > 0:
        ren_mode = draw(st.sampled_from(["none", "some", "some", "all"]))
        for j, v in enumerate(variants):
            if ren_mode == "none":
                break
            if small:
                do = ren_mode == "all" or draw(st.booleans())
                if not do:
                    continue
                kind = draw(st.sampled_from(["nasty", "nasty", "text", "other_ident", "caseflip", "simple"]))
                if kind == "nasty":
                    name = draw(st.sampled_from(NASTY_NAMES))
                elif kind == "text":
                    name = draw(st.text(max_size=12))
                elif kind == "other_ident":
                    name = idents[draw(st.integers(0, n - 1))]
                elif kind == "caseflip":
                    name = v["ident"].swapcase()
                else:
                    name = "n%d" % j
                v["rename"] = name
                v["rename_raw"] = draw(st.booleans())
                if chance(draw, 0.1):
                    v["rename_via_cfg_attr"] = True
            else:
                if ren_mode == "all" or rnd.random() < p_ren:
                    k = rnd.random()
                    if k < 0.3:
                        v["rename"] = rnd.choice(NASTY_NAMES) + str(j)
                    elif k < 0.4:
                        v["rename"] = idents[rnd.randrange(n)]
                    else:
                        v["rename"] = "name%d" % j
        # make names unique unless duplicates are wanted
        want_dups = n > 1 and chance(draw, prof["dups"])
        names = [v.get("rename") if v.get("rename") is not None else v["ident"] for v in variants]
        if want_dups:
            # one to three groups of variants sharing a name
            for _ in range(draw(st.integers(1, min(3, max(1, n // 2))))):
                a = draw(st.integers(0, n - 1))
                b = draw(st.integers(0, n - 2))
                if b >= a:
                    b += 1
                variants[a]["rename"] = names[b]
                variants[a]["rename_raw"] = False
                names[a] = names[b]
        else:
            seen = set()
            for j, v in enumerate(variants):
                nm = names[j]
                if nm in seen:
                    # de-duplicate by falling back to a fresh unique name
                    nm2 = nm + "#%d" % j
                    while nm2 in seen or nm2 in names:
                        nm2 += "'"
                    v["rename"] = nm2
                    v["rename_raw"] = False
                    nm = nm2
                seen.add(nm)
            # pad one name so that the sum of all name lengths lands on / next to a power of two
            # (string tables addressed by narrow offsets)
            if chance(draw, prof.get("pad_names", 0.1)):
                total = sum(len((v.get("rename") if v.get("rename") is not None else v["ident"]).encode("utf-8")) for v in variants)
                target = draw(st.sampled_from([255, 256, 257, 256, 511, 512, 65535, 65536, 65537]))
                if target > 1000 and not chance(draw, 0.25):
                    target = 256
                j = draw(st.integers(0, n - 1))
                if total < target:
                    v = variants[j]
                    nm = (v.get("rename") if v.get("rename") is not None else v["ident"])
                    nm2 = nm + "_" * (target - total)
                    if nm2 not in seen:
                        v["rename"] = nm2
                        v["rename_raw"] = False
                        v["padded_total"] = target

    # foreign attributes
    enum_attrs = []
    if chance(draw, prof["attrs"]):
        enum_attrs = draw(st.lists(st.sampled_from(ENUM_ATTRS), max_size=5, unique=True))
        k = draw(st.integers(0, min(n, 4)))
        for _ in range(k):
            j = draw(st.integers(0, n - 1))
            a = draw(st.sampled_from(VARIANT_ATTRS))
            variants[j].setdefault("attrs", [])
            if a not in variants[j]["attrs"]:
                variants[j]["attrs"].append(a)
    # cfg'd-out variants (removed by the compiler before the derive sees the enum)
    if chance(draw, prof["cfg_off"]):
        at = draw(st.integers(0, n))
        variants.insert(at, {"ident": "CfgOff", "disc": None, "cfg_off": True})
        # an implicit successor of a removed variant continues from the previous *live* one,
        # which is exactly how the values above were assigned (removed variants are skipped).
    if order_kind == "by_name" and n > 1:
        # declaration sorted by (post-rename) name with discriminants in arbitrary order: the shape sorted(name) allows
        live = [v for v in variants if not v.get("cfg_off")]
        vals_now = M.RefEnum({"repr": r, "variants": live}).values
        for v, val in zip(live, vals_now):
            if v.get("disc") is None:
                v["disc"] = str(val)
        variants = sorted(live, key=lambda v: (v["rename"] if v.get("rename") is not None else v["ident"]).encode("utf-8"))
    # the enum's own identifier is part of the input: single letters that generated generic code may use (B, F, I, T),
    # names of prelude / std items, non-ASCII
    ident = "E"
    if chance(draw, prof.get("idents", 0.3)):
        ident = draw(st.sampled_from(["B", "F", "I", "T", "R", "S", "A", "Item", "Iter", "Names", "Option", "Result", "Output",
                                      "Error", "Self_", "MyEnum", "Ünï", "e_x", "Inner", "Copied", "Map"]))
    spec = {"repr": r, "vis": draw(st.sampled_from(prof["vis"])), "ident": ident,
            "enum_attrs": enum_attrs, "variants": variants}
    if chance(draw, prof.get("repr_cfg_attr", 0.03)):
        spec["repr_via_cfg_attr"] = True
    return spec


# ---------------------------------------------------------------------------------------------
# configurations

VIS_RANK = {"": 0, "pub(super)": 1, "pub(crate)": 2, "pub": 3}


def legal_iter_modes(m, with_range, include_match=False):
    if include_match:
        # documented in src/lib.rs; generated only while no known finding lists it
        return legal_iter_modes(m, with_range) + ["match"]
    if m.gapless:
        modes = [None, "auto", "range", "next_and_back", "table"]
    else:
        modes = [None, "auto", "next_and_back", "table"]
    if not with_range:
        modes.append("table_inline")
    return modes


@st.composite
def configs(draw, spec, force=(), forbid=(), p_on=0.5, params=True, split=True, modes=None,
            struct_names=True, fixed_modes=None, iter_match=False, p_vis=0.2, p_sorted=0.0):
    """A legal configuration for `spec` (see DESIGN 3.5)."""
    m = M.RefEnum(spec)
    if isinstance(p_on, (list, tuple)):
        p_on = draw(st.sampled_from(list(p_on)))        # sparse and dense feature sets alike
    chosen = []
    for f in E.ALL_FEATURES:
        if f in forbid:
            continue
        if f in force or chance(draw, p_on):
            chosen.append(f)
    if "range" in chosen and "iter" not in chosen:
        if "iter" in forbid:
            chosen.remove("range")
        else:
            chosen.append("iter")
    fixed_modes = fixed_modes or {}
    eid = spec.get("ident", "E")
    used_names = set(m.idents) | {eid, eid + "Iter", eid + "Names"}
    fn_names = []
    struct_used = set()
    feats = []
    enum_vis = spec.get("vis", "pub")
    for f in chosen:
        ps = []
        if f in E.MODE_FEATURES:
            if f in fixed_modes:
                md = fixed_modes[f]
            elif f == "iter":
                md = draw(st.sampled_from(legal_iter_modes(m, "range" in chosen, iter_match)))
            else:
                md = draw(st.sampled_from([None, "auto", "match", "table"]))
            if md is not None:
                ps.append(["mode", md])
        if params and f in E.FN_FEATURES:
            if chance(draw, 0.2):
                nm = draw(st.sampled_from(["%s_x" % f.lower(), "my%s" % f.capitalize(), "f_%s" % f, "ünï_%s" % f.lower(),
                                           "get", "%s2" % f, "__u_%s" % f.lower(), "_%s" % f.lower(),
                                           # names of methods the prelude traits bring into scope
                                           "to_string", "to_owned", "clone", "fmt", "eq", "default", "as_ref", "cmp", "hash"]))
                if nm not in used_names and nm not in E.ALL_FEATURES:
                    used_names.add(nm)
                    fn_names.append(nm)
                    ps.append(["name", nm])
            if p_vis > 0 and chance(draw, p_vis):
                cands = ["", "pub(crate)", "pub"]
                if f in ("iter", "names"):
                    cands = [c for c in cands if VIS_RANK[c] <= VIS_RANK.get(enum_vis, 0)]
                    if enum_vis == "pub(super)":
                        cands = [""]
                ps.append(["vis", draw(st.sampled_from(cands))])
        if params and struct_names and f in E.STRUCT_FEATURES and chance(draw, 0.2):
            sn = draw(st.sampled_from(["My%sStruct" % f.capitalize(), "It_%s" % f, "Σ%s" % f.capitalize(), "XIter", "XNames", "Q%s" % ("Names" if f == "iter" else "Iter")] + fn_names[-1:]))
            # a struct (type namespace, module level) may share its name with an associated fn / const of the enum
            if (sn not in used_names or sn in fn_names) and sn not in struct_used:
                used_names.add(sn)
                struct_used.add(sn)
                ps.append(["struct_name", sn])
        if len(ps) > 1 and draw(st.booleans()):
            ps = list(draw(st.permutations(ps)))
        feats.append({"f": f, "params": ps})
    if p_sorted > 0 and chance(draw, p_sorted):
        # the compile-time feature, only with the parameters this declaration satisfies
        flags = []
        if all(m.values[i] < m.values[i + 1] for i in range(m.n - 1)):
            flags.append("value")
        if all(m.names[i].encode() < m.names[i + 1].encode() for i in range(m.n - 1)):
            flags.append("name")
        pick = draw(st.sampled_from([flags, flags, flags[:1], flags[-1:], []])) if flags else []
        feats.append({"f": "sorted", "params": [[k, None] for k in pick]})
    if len(feats) > 1:
        feats = list(draw(st.permutations(feats)))
    cfg = {"feats": feats}
    if split and len(feats) > 1 and draw(st.booleans()):
        k = draw(st.integers(2, min(4, len(feats))))
        cuts = sorted(draw(st.lists(st.integers(1, len(feats) - 1), min_size=k - 1, max_size=k - 1, unique=True)))
        groups = []
        prev = 0
        for c in cuts:
            groups.append(c - prev)
            prev = c
        groups.append(len(feats) - prev)
        cfg["groups"] = groups
        cfg["pos"] = [draw(st.sampled_from(["pre", "post"])) for _ in groups]
    elif feats:
        cfg["groups"] = [len(feats)]
        cfg["pos"] = [draw(st.sampled_from(["pre", "post"]))]
    return cfg


def simple_config(features, modes=None, names=None):
    """Deterministic config helper used by probes and replays."""
    modes = modes or {}
    names = names or {}
    feats = []
    for f in features:
        ps = []
        if f in modes and modes[f] is not None:
            ps.append(["mode", modes[f]])
        if f in names:
            ps.append(["name", names[f]])
        feats.append({"f": f, "params": ps})
    return {"feats": feats, "groups": [len(feats)] if feats else [], "pos": ["pre"] if feats else []}


# ---------------------------------------------------------------------------------------------
# iterator histories

HUGE_NTH = [255, 256, 65535, 65536, 65537, 2 ** 32, 2 ** 32 + 1, 2 ** 63, 2 ** 64 - 2, 2 ** 64 - 1]   # usize arguments far beyond any length


def _nth_args(n):
    base = {0, 1, 2, max(0, n // 2), max(0, n - 1), n, n + 1, n + 5}
    return sorted(base) + HUGE_NTH[::3]


@st.composite
def histories(draw, n, max_len=None, finishers=None):
    """An op list for an iterator over n items; nth arguments biased to the interesting ones."""
    max_len = max_len if max_len is not None else min(2 * n + 4, 40)
    args = _nth_args(n)
    op = st.one_of(
        st.sampled_from(["n", "b", "n", "b", "l", "h"]),
        st.sampled_from(args).map(lambda k: "nth:%d" % k),
        st.sampled_from(args).map(lambda k: "nthb:%d" % k),
    )
    ops = draw(st.lists(op, max_size=max_len))
    fin = draw(st.sampled_from((finishers or (M.FINISHERS + M.PARAM_FINISHERS)) + [None]))
    if fin in M.PARAM_FINISHERS:
        fin = "%s:%d" % (fin, draw(st.sampled_from(args)))
    if fin is not None:
        ops = ops + [fin]
    return ops


def history_labels(ops, n):
    """Classification of one history against an n-item iterator (for evidence)."""
    lo, hi = 0, n
    front = back = False
    over = False
    after_exhaust = False
    meets = False
    for op in ops:
        rem = hi - lo
        if op in ("n",) or op.startswith("nth:"):
            front = True
            k = int(op[4:]) if op.startswith("nth:") else 0
            if rem == 0:
                after_exhaust = True
            if k >= rem:
                over = over or k > 0
                lo = hi
            else:
                lo += k + 1
        elif op in ("b",) or op.startswith("nthb:"):
            back = True
            k = int(op[5:]) if op.startswith("nthb:") else 0
            if rem == 0:
                after_exhaust = True
            if k >= rem:
                over = over or k > 0
                hi = lo
            else:
                hi -= k + 1
        if front and back and hi - lo == 0:
            meets = True
    return {"two_sided": front and back, "nth_overshoot": over, "after_exhaustion": after_exhaust,
            "meets_in_middle": meets}
