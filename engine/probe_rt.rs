// Fixed probe runtime, included verbatim (as `mod rt`) in every generated probe.
// Nothing in here depends on the derive; it only drives generated items through
// generic functions and prints a line-per-command transcript.
#[allow(dead_code)]
pub mod rt {
    use std::cell::RefCell;
    use std::fmt::Display;
    use std::io::{BufRead, Write};
    use std::iter::FusedIterator;
    use std::panic::{catch_unwind, AssertUnwindSafe};
    use std::str::FromStr;

    thread_local! { static LAST_PANIC: RefCell<String> = RefCell::new(String::new()); }

    pub type Dispatch = fn(&str, &[&str]) -> String;

    pub fn hex(s: &str) -> String {
        let mut o = String::with_capacity(s.len() * 2 + 1);
        o.push('x');
        for b in s.as_bytes() {
            o.push_str(&format!("{:02x}", b));
        }
        o
    }

    pub fn unhex(s: &str) -> String {
        let s = s.strip_prefix('x').expect("hex arg must start with x");
        let bytes: Vec<u8> = (0..s.len() / 2)
            .map(|i| u8::from_str_radix(&s[2 * i..2 * i + 2], 16).unwrap())
            .collect();
        String::from_utf8(bytes).expect("script strings are valid utf-8")
    }

    pub fn dec<T: Display>(t: T) -> String {
        format!("{}", t)
    }

    pub fn fmt_display<T: Display>(t: T) -> String {
        hex(&format!("{}", t))
    }

    pub fn fmt_debug<T: std::fmt::Debug>(t: T) -> String {
        hex(&format!("{:?}", t))
    }

    pub fn fmt_to_string<T: ToString>(t: T) -> String {
        hex(&t.to_string())
    }

    pub fn idx(a: &[&str], i: usize) -> usize {
        a[i].parse::<usize>().expect("index arg")
    }

    pub fn parse<R: FromStr>(a: &[&str], i: usize) -> R {
        match a[i].parse::<R>() {
            Ok(v) => v,
            Err(_) => panic!("HARNESS: cannot parse numeric arg {:?}", a[i]),
        }
    }

    pub fn sarg(a: &[&str], i: usize) -> String {
        unhex(a[i])
    }

    pub fn opt<T>(o: Option<T>, show: fn(&T) -> String) -> String {
        match o {
            Some(v) => format!("S{}", show(&v)),
            None => "N".to_string(),
        }
    }

    pub fn res<T>(o: Result<T, ()>, show: fn(&T) -> String) -> String {
        match o {
            Ok(v) => format!("S{}", show(&v)),
            Err(()) => "N".to_string(),
        }
    }

    pub fn show_str(s: &&'static str) -> String {
        hex(s)
    }

    /// Exhaustive sweep of a whole 8/16-bit repr through `f`; prints every hit and the miss count.
    pub fn sweep<R: TryFrom<i128> + Copy, F: Fn(R) -> Option<i128>>(lo: i128, hi: i128, f: F) -> String {
        let mut out = String::new();
        let mut miss: u64 = 0;
        let mut n = lo;
        while n <= hi {
            let r: R = match R::try_from(n) {
                Ok(r) => r,
                Err(_) => panic!("HARNESS: sweep value out of repr"),
            };
            match f(r) {
                Some(d) => {
                    out.push_str(&format!("{}>{},", n, d));
                }
                None => miss += 1,
            }
            n += 1;
        }
        out.push_str(&format!("miss={}", miss));
        out
    }

    /// Walk by a successor function from `start`, at most `limit` steps.
    pub fn walk<T: Copy>(start: T, limit: usize, step: fn(T) -> Option<T>, show: fn(&T) -> String) -> String {
        let mut out = String::new();
        let mut cur = Some(start);
        let mut n = 0usize;
        while let Some(v) = cur {
            out.push_str(&show(&v));
            out.push(',');
            n += 1;
            if n > limit {
                out.push_str("LIMIT");
                break;
            }
            cur = step(v);
        }
        out
    }

    pub fn vec_iter<T: Copy>(s: &[T]) -> std::vec::IntoIter<T> {
        s.to_vec().into_iter()
    }

    pub fn ref_range<T: Copy>(sorted: &[T], key: fn(&T) -> i128, a: i128, b: i128) -> std::vec::IntoIter<T> {
        sorted
            .iter()
            .copied()
            .filter(|v| a <= key(v) && key(v) <= b)
            .collect::<Vec<T>>()
            .into_iter()
    }

    fn list<T>(v: &[T], show: fn(&T) -> String) -> String {
        let mut o = String::from("[");
        for (i, x) in v.iter().enumerate() {
            if i > 0 {
                o.push(',');
            }
            o.push_str(&show(x));
        }
        o.push(']');
        o
    }

    /// Interpret an operation list on an iterator. The trait bounds are part of the check:
    /// a struct lacking one of the four traits does not compile here.
    pub fn run_iter<I>(it: I, ops: &[&str], show: fn(&I::Item) -> String) -> String
    where
        I: Iterator + DoubleEndedIterator + ExactSizeIterator + FusedIterator,
    {
        run_iter_impl(it, ops, show, &|_it, _op| None)
    }

    /// Same, for item types that are `Ord`: adds the finishers `max` and `min` (called directly on the iterator).
    pub fn run_iter_ord<I>(it: I, ops: &[&str], show: fn(&I::Item) -> String) -> String
    where
        I: Iterator + DoubleEndedIterator + ExactSizeIterator + FusedIterator,
        I::Item: Ord,
    {
        run_iter_impl(it, ops, show, &|it, op| match op {
            "max" => Some(opt(it.max(), show)),
            "min" => Some(opt(it.min(), show)),
            _ => None,
        })
    }

    fn run_iter_impl<I>(mut it: I, ops: &[&str], show: fn(&I::Item) -> String, extra: &dyn Fn(I, &str) -> Option<String>) -> String
    where
        I: Iterator + DoubleEndedIterator + ExactSizeIterator + FusedIterator,
    {
        let mut out: Vec<String> = Vec::new();
        let mut k = 0;
        while k < ops.len() {
            let op = ops[k];
            k += 1;
            if op == "n" {
                out.push(opt(it.next(), show));
            } else if op == "b" {
                out.push(opt(it.next_back(), show));
            } else if let Some(r) = op.strip_prefix("nth:") {
                out.push(opt(it.nth(r.parse().unwrap()), show));
            } else if let Some(r) = op.strip_prefix("nthb:") {
                out.push(opt(it.nth_back(r.parse().unwrap()), show));
            } else if op == "l" {
                out.push(format!("L{}", it.len()));
            } else if op == "h" {
                let (lo, hi) = it.size_hint();
                out.push(match hi {
                    Some(h) => format!("H{},{}", lo, h),
                    None => format!("H{},N", lo),
                });
            } else {
                // finisher: consumes the iterator, must be last
                assert!(k == ops.len(), "HARNESS: finisher must be last");
                let s = match op {
                    "collect" => list(&it.collect::<Vec<_>>(), show),
                    "rev" => list(&it.rev().collect::<Vec<_>>(), show),
                    "fold" => it.fold(String::from("F"), |mut acc, x| {
                        acc.push_str(&show(&x));
                        acc.push(';');
                        acc
                    }),
                    "rfold" => it.rfold(String::from("R"), |mut acc, x| {
                        acc.push_str(&show(&x));
                        acc.push(';');
                        acc
                    }),
                    "last" => opt(it.last(), show),
                    "count" => format!("C{}", it.count()),
                    "len" => format!("L{}", it.len()),
                    "foreach" => {
                        let mut acc = String::from("E");
                        it.for_each(|x| {
                            acc.push_str(&show(&x));
                            acc.push(';');
                        });
                        acc
                    }
                    "revfold" => it.rev().fold(String::from("V"), |mut acc, x| {
                        acc.push_str(&show(&x));
                        acc.push(';');
                        acc
                    }),
                    "skiplast" => opt(it.skip(1).last(), show),
                    "find" => opt(it.find(|_| true), show),
                    "rfind" => opt(it.rfind(|_| true), show),
                    "reduce" => opt(it.reduce(|_a, b| b), show),
                    x if x.starts_with("position:") => {
                        let k: usize = x[9..].parse().unwrap();
                        let mut c = 0usize;
                        match it.position(move |_| {
                            c += 1;
                            c - 1 == k
                        }) {
                            Some(p) => format!("P{}", p),
                            None => "PN".to_string(),
                        }
                    }
                    "rposition" => match it.rposition(|_| true) {
                        Some(p) => format!("P{}", p),
                        None => "PN".to_string(),
                    },
                    x if x.starts_with("takerev:") => {
                        let k: usize = x[8..].parse().unwrap();
                        list(&it.take(k).rev().collect::<Vec<_>>(), show)
                    }
                    x if x.starts_with("skiprev:") => {
                        let k: usize = x[8..].parse().unwrap();
                        list(&it.skip(k).rev().collect::<Vec<_>>(), show)
                    }
                    "stepby2" => list(&it.step_by(2).collect::<Vec<_>>(), show),
                    _ => match extra(it, op) {
                        Some(s) => s,
                        None => panic!("HARNESS: unknown op {}", op),
                    },
                };
                out.push(s);
                return out.join(" ");
            }
        }
        out.join(" ")
    }

    pub fn zip_list<A, B, I: Iterator<Item = A>, J: Iterator<Item = B>>(
        i: I,
        j: J,
        sa: fn(&A) -> String,
        sb: fn(&B) -> String,
    ) -> String {
        let mut o = String::from("[");
        for (a, b) in i.zip(j) {
            o.push_str(&sa(&a));
            o.push(':');
            o.push_str(&sb(&b));
            o.push(',');
        }
        o.push(']');
        o
    }

    /// Miri variant: the script is embedded (no stdin under isolation); `shard`/`nshards` come from argv so
    /// that several interpreters can share one build. Prints "<index> <result>" per executed line.
    pub fn main_embedded(table: &[Dispatch], script: &[&str]) {
        let args: Vec<String> = std::env::args().collect();
        let shard: usize = args.get(1).and_then(|s| s.parse().ok()).unwrap_or(0);
        let nshards: usize = args.get(2).and_then(|s| s.parse().ok()).unwrap_or(1);
        install_hook();
        for (i, line) in script.iter().enumerate() {
            let parts: Vec<&str> = line.split(' ').filter(|s| !s.is_empty()).collect();
            let m: usize = parts[0].parse().expect("module index");
            if m % nshards != shard {
                continue;
            }
            println!("@{}", i);
            let f = table[m];
            let r = catch_unwind(AssertUnwindSafe(|| f(parts[1], &parts[2..])));
            let text = match r {
                Ok(s) => s,
                Err(_) => format!("PANIC {}", hex(&LAST_PANIC.with(|p| p.borrow().clone()))),
            };
            println!("{} {}", i, text);
        }
        println!("DONE {}", shard);
    }

    fn install_hook() {
        std::panic::set_hook(Box::new(|info| {
            let msg = if let Some(s) = info.payload().downcast_ref::<&str>() {
                s.to_string()
            } else if let Some(s) = info.payload().downcast_ref::<String>() {
                s.clone()
            } else {
                "<non-string panic>".to_string()
            };
            let loc = info.location().map(|l| format!("{}:{}", l.file(), l.line())).unwrap_or_default();
            let full = format!("{} @ {}", msg, loc);
            eprintln!("PROBE-PANIC: {}", full);
            LAST_PANIC.with(|p| *p.borrow_mut() = full);
        }));
    }

    pub fn main_loop(table: &[Dispatch]) {
        std::panic::set_hook(Box::new(|info| {
            let msg = if let Some(s) = info.payload().downcast_ref::<&str>() {
                s.to_string()
            } else if let Some(s) = info.payload().downcast_ref::<String>() {
                s.clone()
            } else {
                "<non-string panic>".to_string()
            };
            let loc = info.location().map(|l| format!("{}:{}", l.file(), l.line())).unwrap_or_default();
            let full = format!("{} @ {}", msg, loc);
            // stderr copy: survives a non-unwinding panic (abort)
            eprintln!("PROBE-PANIC: {}", full);
            LAST_PANIC.with(|p| *p.borrow_mut() = full);
        }));
        let stdin = std::io::stdin();
        let stdout = std::io::stdout();
        for line in stdin.lock().lines() {
            let line = line.expect("stdin");
            let parts: Vec<&str> = line.split(' ').filter(|s| !s.is_empty()).collect();
            if parts.is_empty() {
                continue;
            }
            let m: usize = parts[0].parse().expect("module index");
            let cmd = parts[1];
            let args = &parts[2..];
            let f = table[m];
            let r = catch_unwind(AssertUnwindSafe(|| f(cmd, args)));
            let text = match r {
                Ok(s) => s,
                Err(_) => {
                    let msg = LAST_PANIC.with(|p| p.borrow().clone());
                    format!("PANIC {}", hex(&msg))
                }
            };
            let mut o = stdout.lock();
            writeln!(o, "{}", text).unwrap();
            o.flush().unwrap();
        }
    }
}
