"""Miri runner: every sub-case is one small source file interpreted by its own `miri` driver process
(invoked directly, the way `cargo miri run` invokes it), several in parallel. The macro is built once
per tree with the nightly toolchain (proc-macro ABI must match Miri's rustc)."""
import concurrent.futures
import fcntl
import glob
import os
import shutil
import subprocess
import tempfile
import time

from . import build
from . import emit as E

TIMES = {}
_STATE = {}


def _env():
    e = dict(os.environ)
    e["CARGO_NET_OFFLINE"] = "true"
    e.pop("RUSTFLAGS", None)
    e.pop("CARGO_TARGET_DIR", None)
    return e


def driver():
    """(miri binary, sysroot) or raises InfraError."""
    if "driver" in _STATE:
        return _STATE["driver"]
    try:
        p = subprocess.run(["rustup", "which", "miri", "--toolchain", "nightly"], stdout=subprocess.PIPE, stderr=subprocess.PIPE, text=True)
    except Exception as e:
        raise build.InfraError("rustup not available: %s" % e)
    path = p.stdout.strip()
    if p.returncode != 0 or not os.path.exists(path):
        raise build.InfraError("miri driver not found: %s" % p.stderr[-500:])
    sysroot = os.path.expanduser("~/.cache/miri")
    if not os.path.isdir(os.path.join(sysroot, "lib")):
        s = subprocess.run(["cargo", "+nightly", "miri", "setup"], env=_env(), stdout=subprocess.PIPE, stderr=subprocess.STDOUT, text=True)
        if s.returncode != 0 or not os.path.isdir(os.path.join(sysroot, "lib")):
            raise build.InfraError("cargo miri setup failed: %s" % s.stdout[-1500:])
    _STATE["driver"] = (path, sysroot)
    return _STATE["driver"]


def available():
    try:
        driver()
        return True
    except build.InfraError:
        return False


def nightly_macro():
    """libenum_tools.so built from the working tree with the nightly toolchain."""
    th = build.tree_hash()
    if ("macro", th) in _STATE:
        return _STATE[("macro", th)]
    tdir = os.path.join(build.BUILD, "macro-nightly-" + th)
    so = os.path.join(tdir, "debug", "libenum_tools.so")
    os.makedirs(build.BUILD, exist_ok=True)
    lock = open(os.path.join(build.BUILD, "macro-nightly.lock"), "w")
    fcntl.flock(lock, fcntl.LOCK_EX)
    try:
        if not os.path.exists(so + ".ok"):
            now = time.time()
            for old in glob.glob(os.path.join(build.BUILD, "macro-nightly-*")):
                try:
                    if old != tdir and now - os.path.getmtime(old) > 3 * 3600:
                        shutil.rmtree(old, ignore_errors=True)
                except OSError:
                    pass
            p = subprocess.run(["cargo", "+nightly", "build", "--offline", "--lib", "--target-dir", tdir], cwd=build.repo(),
                               env=_env(), stdout=subprocess.PIPE, stderr=subprocess.STDOUT, text=True)
            if p.returncode != 0 or not os.path.exists(so):
                raise build.InfraError("nightly macro build failed:\n" + p.stdout[-3000:])
            open(so + ".ok", "w").write(th)
    finally:
        fcntl.flock(lock, fcntl.LOCK_UN)
        lock.close()
    try:
        os.utime(tdir, None)
    except OSError:
        pass
    _STATE[("macro", th)] = so
    return so


def _one(idx, source, td, timeout):
    miri, sysroot = driver()
    so = nightly_macro()
    src = os.path.join(td, "m%d.rs" % idx)
    with open(src, "w") as f:
        f.write(source)
    tc_lib = os.path.join(os.path.dirname(os.path.dirname(miri)), "lib")
    env = _env()
    env["LD_LIBRARY_PATH"] = tc_lib + ":" + os.path.dirname(so) + ":" + env.get("LD_LIBRARY_PATH", "")
    env.pop("MIRI_BE_RUSTC", None)
    cmd = [miri, "--sysroot", sysroot, "--crate-name", "m%d" % idx, "--edition=2021", src, "--crate-type", "bin",
           "--target", "x86_64-unknown-linux-gnu", "-L", "dependency=" + os.path.dirname(so),
           "-L", "dependency=" + os.path.join(os.path.dirname(so), "deps"), "--extern", "enum_tools=" + so,
           "--out-dir", td, "-Zmiri-disable-isolation", "--", "0", "1"]
    try:
        p = subprocess.run(cmd, env=env, stdout=subprocess.PIPE, stderr=subprocess.PIPE, text=True, timeout=timeout, cwd=td)
    except subprocess.TimeoutExpired:
        return idx, None, None, "miri timed out after %ds" % timeout
    return idx, p.stdout, p.stderr, None


def run_cases(items, nprocs=16, timeout=1800):
    """items: list of (modules, script) - each becomes one interpreted program.
    Returns list of (outputs: {line_index: text}, ub_report_or_None) per item; raises InfraError on tool failure."""
    t0 = time.time()
    driver()
    nightly_macro()
    os.makedirs(build.TMPROOT, exist_ok=True)
    td = tempfile.mkdtemp(prefix="miri%d-" % os.getpid(), dir=build.TMPROOT)
    results = [None] * len(items)
    try:
        sources = []
        for modules, script in items:
            parts = [E.HEADER, E.PROBE_RT]
            paths = []
            for k, c in enumerate(modules):
                parts.append(E.module_text(k, c[0], c[1], c[2]))
                paths.append(E.dispatch_path(k, c[2]))
            parts.append("static SCRIPT: &[&str] = &[\n%s\n];" % ",\n".join(E.rust_str_lit(l) for l in script.lines))
            parts.append("fn main() { rt::main_embedded(&[%s], SCRIPT); }" % ", ".join(paths))
            sources.append("\n".join(parts) + "\n")
        with concurrent.futures.ThreadPoolExecutor(max_workers=nprocs) as ex:
            futs = [ex.submit(_one, i, s, td, timeout) for i, s in enumerate(sources)]
            for f in futs:
                idx, so, se, err = f.result()
                if err:
                    raise build.InfraError(err)
                outputs = {}
                last = None
                done = False
                for line in so.split("\n"):
                    if line.startswith("@"):
                        last = int(line[1:])
                    elif line.startswith("DONE"):
                        done = True
                    elif line and line[0].isdigit():
                        i, _, text = line.partition(" ")
                        outputs[int(i)] = text
                report = None
                if "Undefined Behavior" in se:
                    k = se.find("Undefined Behavior")
                    report = {"line_index": last, "report": se[max(0, k - 100):k + 1500]}
                elif not done:
                    raise build.InfraError("miri case %d did not finish: %s" % (idx, se[-2500:]))
                results[idx] = (outputs, report)
        TIMES["total_s"] = round(time.time() - t0, 1)
        return results
    finally:
        shutil.rmtree(td, ignore_errors=True)
