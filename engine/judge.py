"""Compile + run + compare against the model; outcome records; UB classification."""
import hashlib
import json
import os

from . import build
from . import emit as E
from . import model as M

UB_MARKERS = [
    "trying to construct an enum from an invalid value",
    "unsafe precondition(s) violated",
    "invalid value for an enum",
    "misaligned pointer dereference",
    "null pointer dereference",
    "Undefined Behavior",
]


def is_ub_text(t):
    return any(mk in t for mk in UB_MARKERS)


class Outcome:
    """Result of judging one case."""

    def __init__(self):
        self.violations = []        # list of dicts {what, ...}
        self.nontrivial = False
        self.fingerprint = None
        self.labels = {}            # label -> value (stringified) for histograms
        self.sub = {}               # counter name -> int
        self.sample = None
        self.excluded = {}          # known-finding id -> count of exclusions by construction
        self.cover = {}             # coverage-set name -> set of hashable items (merged over all cases)

    @property
    def ok(self):
        return not self.violations

    def violate(self, what, **kw):
        d = {"what": what}
        d.update(kw)
        self.violations.append(d)

    def count(self, name, k=1):
        self.sub[name] = self.sub.get(name, 0) + k

    def label(self, name, value):
        self.labels[name] = str(value)


def fp(*objs):
    return hashlib.sha256(json.dumps(objs, sort_keys=True, default=str).encode()).hexdigest()[:16]


_BIN_LRU = []


def _remember(c):
    if c.path and c.path.endswith(".bin"):
        if c.path in _BIN_LRU:
            _BIN_LRU.remove(c.path)
        _BIN_LRU.append(c.path)
        while len(_BIN_LRU) > 6:
            old = _BIN_LRU.pop(0)
            try:
                os.remove(old)
            except OSError:
                pass


def compile_probe(modules, externs=None):
    src = E.probe_source(modules, externs=tuple((externs or {}).keys()))
    c = build.rustc(src, mode="bin", externs=externs)
    if c.ok:
        _remember(c)
    return src, c


def short_err(stderr, limit=1200):
    """First error block(s) of a rustc stderr."""
    lines = [l for l in stderr.split("\n")]
    keep = []
    on = False
    for l in lines:
        if l.startswith("error"):
            on = True
        elif l.startswith("warning"):
            on = False
        if on:
            keep.append(l)
    # errors without a code come from the derive (proc-macro diagnostics): show them first
    blocks = []
    cur = []
    for l in keep:
        if l.startswith("error") and cur:
            blocks.append(cur)
            cur = []
        cur.append(l)
    if cur:
        blocks.append(cur)
    blocks.sort(key=lambda b: 0 if b[0].startswith("error: ") else 1)
    t = "\n".join("\n".join(b[:12]) for b in blocks) if blocks else stderr
    return t[:limit]


def run_script(out, modules, script, externs=None, must_compile=True, ub_only=False):
    """Compile the probe, run the script, compare every line with its expectation.
    Expectations: str (exact), {"any_of": [...]} (one of), None (not compared).
    Violations go to `out`. Returns the list of observed lines (or None when not compiled)."""
    src, c = compile_probe(modules, externs)
    if not c.ok:
        if must_compile:
            out.violate("probe does not compile (a legal configuration in the documented domain)",
                        stderr=short_err(c.stderr))
        return None
    r = build.run(c.path, script.text())
    obs = r.lines
    n = len(script.lines)
    out.count("script_lines", n)
    for i in range(n):
        exp = script.expected[i]
        line = script.lines[i]
        tag = script.tags[i]
        if i >= len(obs):
            stderr_tail = r.stderr[-600:]
            if is_ub_text(r.stderr) or r.rc < 0:
                out.violate("process died while executing line (UB detector / signal)", line=line,
                            rc=r.rc, stderr=stderr_tail, ub=True)
            else:
                out.violate("process died while executing line", line=line, rc=r.rc, stderr=stderr_tail)
            break
        o = obs[i]
        if o.startswith("PANIC "):
            msg = M.unhexs(o[6:])
            if msg.startswith("HARNESS"):
                raise build.InfraError("harness panic: %s (line %r)" % (msg, line))
            if is_ub_text(msg):
                out.violate("undefined behaviour detected by rustc's debug checks", line=line, panic=msg, ub=True)
                continue
            if ub_only:
                continue
            if tag.startswith("ref_"):
                raise build.InfraError("reference iterator panicked: %s (line %r)" % (msg, line))
            if exp is None:
                continue
            out.violate("panic where a value was expected", line=line, expected=exp, panic=msg)
            continue
        if exp is None or ub_only and not tag.startswith("ref_"):
            continue
        good = (o == exp) if isinstance(exp, str) else (o in exp["any_of"])
        if not good:
            if tag.startswith("ref_"):
                raise build.InfraError("python model and in-probe std reference disagree on %r: model %r std %r"
                                       % (line, exp, o))
            out.violate("wrong result", line=line, expected=exp if isinstance(exp, str) else exp["any_of"],
                        observed=o[:2000])
    return obs


def abridge_spec(spec, maxv=8):
    s = dict(spec)
    vs = spec["variants"]
    if len(vs) > maxv:
        s["variants"] = vs[:maxv] + [{"...": "%d more" % (len(vs) - maxv)}]
    return s


def cfg_text(cfg):
    return [t for _p, t in E.config_attr_texts(cfg)]


def lib_source(item_text, context_items=()):
    """A library crate holding one derive item (accept/reject checks)."""
    return (E.HEADER + "pub mod m {\nuse ::enum_tools::EnumTools;\n" + "\n".join(context_items) + "\n" + item_text + "\n}\n")


def accepts(item_text, context_items=()):
    """(compiles?, stderr) of a check-only compile."""
    c = build.rustc(lib_source(item_text, context_items), mode="check")
    return c.ok, c.stderr


def case_rng(case):
    """PRNG for the in-case sampling decisions, keyed by the whole case (Hypothesis-drawn integers are
    heavily biased to small values, so the drawn seed alone would repeat the same choices)."""
    import random
    h = hashlib.sha256(json.dumps(case, sort_keys=True, default=str).encode()).digest()
    return random.Random(int.from_bytes(h[:8], "big"))
