"""Mutation grammars: a legal (spec, cfg) plus exactly one documented-domain violation.

C12 operators change the declaration, C13 operators change the configuration. Every operator is a
pure function of (spec, cfg, rnd) and returns (spec', cfg', context_items, detail) or None when it
does not apply to this declaration (the caller then falls back to another operator).
"""
import copy

from . import emit as E
from . import model as M

# ------------------------------------------------------------------------------------------------
# C12: declarations outside the supported domain


def _fresh_value(m, want=None):
    """A repr value not used as a discriminant (prefer `want`)."""
    lo, hi = M.repr_domain(m.repr)
    used = set(m.values)
    if want is not None and lo <= want <= hi and want not in used:
        return want
    for c in (m.max + 1, m.min - 1, m.max + 2, 0, 1, 2, 3):
        if lo <= c <= hi and c not in used:
            return c
    return None


def nonliteral_forms(m, v, rnd):
    """[(label, expr_text, context_items, new_value_or_None)] expressions that rustc evaluates to `v`
    in type R (so the control enum is unchanged) but that are not plain (negated) integer literals."""
    r = m.repr
    lo, hi = M.repr_range(r)
    out = []
    lit = str(v)
    plit = "(%s)" % lit if v < 0 else lit
    out.append(("const_path", "C_K", ["const C_K: %s = %s;" % (r, lit)], None))
    out.append(("const_in_module", "consts::K", ["mod consts { pub const K: %s = %s; }" % (r, lit)], None))
    if v == hi:
        out.append(("assoc_const", "%s::MAX" % r, [], None))
        out.append(("assoc_const_core", "::core::primitive::%s::MAX" % r, [], None))
    if v == lo:
        out.append(("assoc_const", "%s::MIN" % r, [], None))
    if v > lo:
        out.append(("arithmetic", "%d + 1" % (v - 1), [], None))
    if v < hi:
        out.append(("arithmetic", "%d - 1" % (v + 1), [], None))
    out.append(("arithmetic_mul", "%s * 1" % plit, [], None))
    out.append(("arithmetic_or", "%s | 0" % plit, [], None))
    out.append(("shift", "%s << 0" % plit, [], None))
    out.append(("cast", "%s as %s" % (plit, r), [], None))
    if 0 <= v <= 255 and r != "u8":
        out.append(("cast_from_u8", "%du8 as %s" % (v, r), [], None))
    out.append(("paren", "(%s)" % lit, [], None))
    out.append(("paren2", "((%s))" % lit, [], None))
    if lo < 0 and v > lo:
        out.append(("double_neg", "--%d" % v if v >= 0 else "- -(%d)" % v, [], None))
        out.append(("neg_paren", "-(%d)" % (-v), [], None))
    if lo == 0:
        out.append(("not", "!%d" % (hi - v), [], None))
    else:
        out.append(("not", "!(%d)" % (~v), [], None))
    out.append(("block", "{ %s }" % lit, [], None))
    out.append(("const_block", "const { %s }" % lit, [], None))
    out.append(("if_expr", "if true { %s } else { %s }" % (lit, lit), [], None))
    out.append(("index", "[%s][0]" % lit, [], None))
    out.append(("tuple_field", "(%s,).0" % lit, [], None))
    out.append(("method", "%s.wrapping_add(0)" % ("%d%s" % (v, r) if v >= 0 else "(%d%s)" % (v, r)), [], None))
    out.append(("macro_call", "lit!()", ["macro_rules! lit { () => { %s } }" % lit], None))
    out.append(("block_const", "{ const K: %s = %s; K }" % (r, lit), [], None))
    out.append(("size_of", "::core::mem::size_of::<[u8; %d]>() as %s" % (v, r) if 0 <= v <= 4096 else "%s as %s" % (plit, r), [], None))
    # literal kinds that are not integer literals (these change the value)
    if r == "u8":
        out.append(("byte_literal", "b'a'", [], 97))
    out.append(("char_cast", "'a' as %s" % r, [], 97))
    out.append(("bool_cast", "true as %s" % r, [], 1))
    out.append(("float_literal", "1.0", [], 1))
    out.append(("float_cast", "1.0 as %s" % r, [], 1))
    out.append(("string_literal", "\"1\"", [], 1))
    out.append(("bool_literal", "true", [], 1))
    out.append(("byte_string", "b\"1\"[0] as %s" % r, [], 49))
    return out


C12_OPS = ["struct", "union", "zero_variants", "field_variant", "field_variant", "nonliteral", "nonliteral", "nonliteral",
           "nonliteral", "nonliteral", "beyond_i64", "implicit_after_i64max", "repr", "repr", "repr"]


def c12_apply(op, spec, cfg, rnd):
    m = M.RefEnum(spec)
    s = copy.deepcopy(spec)
    ctx = []
    r = spec["repr"]
    if op == "struct":
        kind = rnd.choice(["unit", "tuple", "named", "named_repr_c", "tuple_transparent", "unit_int_repr"])
        if kind == "unit":
            s["repr_lines"] = []
            s["item_override"] = "struct E;"
        elif kind == "tuple":
            s["repr_lines"] = []
            s["item_override"] = "struct E(%s);" % r
        elif kind == "named":
            s["repr_lines"] = []
            s["item_override"] = "struct E { a: %s }" % r
        elif kind == "named_repr_c":
            s["repr_lines"] = ["#[repr(C)]"]
            s["item_override"] = "struct E { a: %s, b: u8 }" % r
        elif kind == "tuple_transparent":
            s["repr_lines"] = ["#[repr(transparent)]"]
            s["item_override"] = "struct E(%s);" % r
        else:
            s["item_override"] = "struct E;"            # keeps #[repr(R)]: rustc itself rejects this
        return s, cfg, ctx, "struct:" + kind
    if op == "union":
        kind = rnd.choice(["plain", "repr_c"])
        s["repr_lines"] = [] if kind == "plain" else ["#[repr(C)]"]
        s["item_override"] = "union E { a: %s, b: u8 }" % r
        return s, cfg, ctx, "union:" + kind
    if op == "zero_variants":
        kind = rnd.choice(["int_repr", "no_repr"])
        s["variants"] = []
        if kind == "no_repr":
            s["repr_lines"] = []
        return s, cfg, ctx, "zero_variants:" + kind
    live = [i for i, v in enumerate(s["variants"]) if not v.get("cfg_off")]
    if op == "field_variant":
        j = rnd.choice(live)
        kind = rnd.choice(["()", "{}", "(u8)", "{ f: u8 }", "(u8, u8)", "((),)"])
        v = s["variants"][j]
        v["ident"] = v["ident"] + kind
        # a data-carrying variant with repr(int) is legal Rust; keep explicit discriminants as they are
        return s, cfg, ctx, "field_variant:" + kind
    if op == "nonliteral":
        j = rnd.choice(live)
        li = live.index(j)
        val = m.values[li]
        forms = nonliteral_forms(m, val, rnd)
        label, text, ctx, newv = rnd.choice(forms)
        if newv is not None:
            if newv != val and newv in m.values:
                # would create a duplicate discriminant: pick a value-preserving form instead
                label, text, ctx, newv = rnd.choice([f for f in forms if f[3] is None])
            else:
                lo, hi = M.repr_domain(r)
                if not (lo <= newv <= hi):
                    label, text, ctx, newv = rnd.choice([f for f in forms if f[3] is None])
        s["variants"][j]["disc"] = text
        # later implicit variants continue from the new value: make the successor explicit to keep
        # the control enum free of duplicates
        if newv is not None and newv != val:
            for k in range(j + 1, len(s["variants"])):
                vv = s["variants"][k]
                if vv.get("cfg_off"):
                    continue
                if vv.get("disc") is None:
                    vv["disc"] = str(m.values[live.index(k)])
                break
        return s, cfg, list(ctx), "nonliteral:" + label
    if op == "beyond_i64":
        if r not in ("u64", "u128", "i128", "usize"):
            return None
        if r == "i128" and rnd.random() < 0.6:
            val = rnd.choice([-2 ** 63 - 1, -2 ** 63 - 2, -(2 ** 64 - 1), -(2 ** 64 - 2), -(2 ** 63 + rnd.randrange(3, 2 ** 62)),
                              -(2 ** 64 - rnd.randrange(3, 2 ** 40)), -2 ** 64, -(2 ** 64 + 1), -2 ** 100, -2 ** 127])
        else:
            hi = M.repr_range(r)[1]
            val = rnd.choice([v for v in (2 ** 63, 2 ** 63 + 1, 2 ** 64 - 1, 2 ** 64 - 2, 2 ** 63 + rnd.randrange(2, 2 ** 62), 2 ** 64,
                                          2 ** 64 + 1, 2 ** 64 + rnd.randrange(0, 2 ** 40), 2 ** 100, hi) if v <= hi])
        if val in m.values:
            return None
        style = rnd.choice(["dec", "hex", "suffix"])
        if r == "usize" and val > 2 ** 64 - 1:
            val = 2 ** 64 - 1 - rnd.randrange(0, 1000)
        mag = abs(val)
        text = {"dec": str(mag), "hex": "0x%x" % mag, "suffix": "%d%s" % (mag, r)}[style]
        if val < 0:
            text = "-" + text
        pos = rnd.choice(["append", "replace"])
        if pos == "append" or len(live) == 1:
            s["variants"].append({"ident": "Beyond", "disc": text})
        else:
            j = live[-1]
            s["variants"][j]["disc"] = text
        return s, cfg, ctx, "beyond_i64:%s" % ("neg" if val < 0 else "pos")
    if op == "implicit_after_i64max":
        if r not in ("u64", "u128", "i128", "usize"):
            return None
        if 2 ** 63 - 1 in m.values or 2 ** 63 in m.values:
            return None
        s["variants"].append({"ident": "AtMax", "disc": "9223372036854775807"})
        s["variants"].append({"ident": "Beyond", "disc": None})
        return s, cfg, ctx, "implicit_after_i64max"
    if op == "repr":
        other = rnd.choice([x for x in M.REPRS if x != r])
        kinds = {
            "missing": [],
            "duplicated_same": ["#[repr(%s)]" % r, "#[repr(%s)]" % r],
            "two_different": ["#[repr(%s)]" % r, "#[repr(%s)]" % other],
            "two_in_one": ["#[repr(%s, %s)]" % (r, other)],
            "C": ["#[repr(C)]"],
            "C_and_int": ["#[repr(C, %s)]" % r],
            "int_and_C": ["#[repr(%s, C)]" % r],
            "C_then_int": ["#[repr(C)]", "#[repr(%s)]" % r],
            "transparent": ["#[repr(transparent)]"],
            "align_only": ["#[repr(align(4))]"],
            "Rust": ["#[repr(Rust)]"],
            "bogus_int": ["#[repr(u7)]"],
            "bool": ["#[repr(bool)]"],
            "char": ["#[repr(char)]"],
            "f32": ["#[repr(f32)]"],
            "path": ["#[repr(::core::primitive::%s)]" % r],
            "name_value": ["#[repr = \"%s\"]" % r],
            "string": ["#[repr(\"%s\")]" % r],
            "empty": ["#[repr()]"],
        }
        kind = rnd.choice(sorted(kinds))
        s["repr_lines"] = kinds[kind]
        s.pop("repr_via_cfg_attr", None)
        return s, cfg, ctx, "repr:" + kind
    raise ValueError(op)


# ------------------------------------------------------------------------------------------------
# C13: invalid or contradictory configuration

PARAM_FEATURES = {f: ["name", "vis"] for f in E.FN_FEATURES}
for _f in E.MODE_FEATURES:
    PARAM_FEATURES.setdefault(_f, []).append("mode")
for _f in E.STRUCT_FEATURES:
    PARAM_FEATURES[_f].append("struct_name")
for _f in E.TRAIT_FEATURES:
    PARAM_FEATURES.setdefault(_f, [])
PARAM_FEATURES["sorted"] = ["name", "value"]

BAD_MODES = {
    "as_str": ["Match", "MATCH", "tabel", "", " table", "table ", "range", "table_inline", "next_and_back", "inline", "Auto", "none", "matches"],
    "from_str": ["Match", "TABLE", "tabel", "", " match", "range", "next_and_back", "table_inline", "hash", "phf"],
    "FromStr": ["Match", "Table", "tabel", "", "auto ", "range", "next_and_back", "table_inline", "trie"],
    # "match" is documented for iter (src/lib.rs) and therefore not in the reject set
    "iter": ["Range", "TABLE", "table-inline", "tableinline", "next", "next_back", "nextandback", "", " auto", "inline", "array", "Table_Inline"],
}
BAD_VIS = ["pub(super)", "pub (crate)", "PUB", "public", "pub(in crate)", "crate", "pub(self)", " pub", "pub ", "priv", "private",
           "pub(crate) ", "Pub", "pub(in crate::x)", "inherit", "pub(crate, super)"]
UNKNOWN_FEATURES = ["bogus", "as_string", "tryfrom", "IntoIterator", "iter_names", "Iter", "debug", "INTO", "min", "max", "Min",
                    "to_str", "from", "try_into", "Try_From", "display", "Eq", "PartialEq", "Ord", "Hash", "Clone", "Default",
                    "prev", "last", "first", "len", "count", "values", "variants", "ünknown", "sort", "Sorted", "rename", "repr",
                    "next_Back", "intostr", "Into_Str", "fromstr", "asstr", "as_ref", "AsRef", "Names", "Range"]


def _add_feature_raw(cfg, raw, where):
    c = copy.deepcopy(cfg)
    if where == "own_attr" or not c["feats"]:
        c.setdefault("raw_attrs", []).append(["post" if where != "pre" else "pre", "#[enum_tools(%s)]" % raw])
    else:
        c["feats"].append({"f": "_raw", "raw": raw})
        c["groups"] = list(c.get("groups") or [len(c["feats"]) - 1])
        c["groups"][-1] += 1
    return c


def _replace_feature(cfg, fname, raw):
    c = copy.deepcopy(cfg)
    for f in c["feats"]:
        if f["f"] == fname:
            f["raw"] = raw
            return c
    return None


def _feat_inner(f):
    t = E.feature_text(f)
    if "(" in t:
        return t[t.index("(") + 1:-1]
    return ""


C13_OPS = ["unknown_feature", "unknown_param", "unknown_param", "dup_feature", "dup_param", "bad_mode", "bad_mode", "bad_vis",
           "wrong_kind", "wrong_kind", "range_without_iter", "range_table_inline", "iter_range_on_holes", "attr_shape",
           "variant_attr", "variant_attr"]


def c13_apply(op, spec, cfg, rnd):
    m = M.RefEnum(spec)
    s = copy.deepcopy(spec)
    present = [f["f"] for f in cfg["feats"]]
    if op == "unknown_feature":
        name = rnd.choice(UNKNOWN_FEATURES)
        form = rnd.choice(["bare", "bare", "list", "list_param"])
        raw = {"bare": name, "list": "%s()" % name, "list_param": "%s(name = \"x\")" % name}[form]
        return s, _add_feature_raw(cfg, raw, rnd.choice(["same", "own_attr", "pre"])), "unknown_feature:" + form
    if op == "unknown_param":
        fname = rnd.choice(sorted(PARAM_FEATURES))
        legal = PARAM_FEATURES[fname]
        cands = [p for p in ["bogus", "mode", "name", "vis", "struct_name", "struct", "value", "names", "rename", "Mode", "NAME",
                             "visibility"] if p not in legal]
        pname = rnd.choice(cands)
        form = rnd.choice(["bare", "value"])
        good = {"vis": "pub", "mode": "table", "name": "x_y", "struct_name": "XStruct"}.get(pname, "x")
        ptxt = pname if form == "bare" else "%s = \"%s\"" % (pname, rnd.choice([good, good, "x"]))
        if fname == "sorted":
            form = "bare" if pname not in ("mode",) else form
        if fname in present:
            f = E.feat(cfg, fname)
            inner = _feat_inner(f)
            raw = "%s(%s)" % (fname, (inner + ", " if inner else "") + ptxt)
            c = _replace_feature(cfg, fname, raw)
        else:
            if fname == "range" and "iter" not in present:
                return None
            c = _add_feature_raw(cfg, "%s(%s)" % (fname, ptxt), rnd.choice(["same", "own_attr"]))
        return s, c, "unknown_param:%s.%s" % (fname, "bare" if form == "bare" else "value")
    if op == "dup_feature":
        if not present:
            return None
        fname = rnd.choice(present)
        f = E.feat(cfg, fname)
        form = rnd.choice(["same_text", "bare", "other_attr"])
        raw = fname if form == "bare" else E.feature_text(f)
        where = "own_attr" if form == "other_attr" else "same"
        return s, _add_feature_raw(cfg, raw, where), "dup_feature:" + form
    if op == "dup_param":
        cands = [f for f in cfg["feats"] if f.get("params")]
        if cands:
            f = rnd.choice(cands)
            k, v = rnd.choice(f["params"])
            inner = _feat_inner(f)
            other = rnd.choice(["same", "different", "bare", "bare"])
            if v is None:
                extra = k if other != "bare" else "%s = \"x\"" % k
            elif other == "bare":
                extra = k                       # once with a value, once as a bare flag
            else:
                extra = "%s = %s" % (k, E.rust_str_lit(v if other == "same" else v + "2"))
            raw = "%s(%s, %s)" % (f["f"], inner, extra) if rnd.random() < 0.5 else "%s(%s, %s)" % (f["f"], extra, inner)
            return s, _replace_feature(cfg, f["f"], raw), "dup_param:" + k
        return None
    if op == "bad_mode":
        fname = rnd.choice(sorted(BAD_MODES))
        mode = rnd.choice(BAD_MODES[fname])
        ptxt = "mode = %s" % E.rust_str_lit(mode)
        if fname in present:
            f = E.feat(cfg, fname)
            keep = [p for p in f.get("params", []) if p[0] != "mode"]
            inner = ", ".join(E.feature_text({"f": "x", "params": [p]})[2:-1] for p in keep)
            raw = "%s(%s)" % (fname, (inner + ", " if inner else "") + ptxt)
            c = _replace_feature(cfg, fname, raw)
        else:
            c = _add_feature_raw(cfg, "%s(%s)" % (fname, ptxt), "same")
        return s, c, "bad_mode:%s" % fname
    if op == "bad_vis":
        fname = rnd.choice(E.FN_FEATURES)
        if fname == "range" and "iter" not in present:
            return None
        vis = rnd.choice(BAD_VIS)
        ptxt = "vis = %s" % E.rust_str_lit(vis)
        if fname in present:
            f = E.feat(cfg, fname)
            keep = [p for p in f.get("params", []) if p[0] != "vis"]
            inner = ", ".join(E.feature_text({"f": "x", "params": [p]})[2:-1] for p in keep)
            raw = "%s(%s)" % (fname, (inner + ", " if inner else "") + ptxt)
            c = _replace_feature(cfg, fname, raw)
        else:
            c = _add_feature_raw(cfg, "%s(%s)" % (fname, ptxt), "same")
        return s, c, "bad_vis"
    if op == "wrong_kind":
        forms = [
            ("mode_int", "as_str(mode = 1)"), ("mode_bare", "as_str(mode)"), ("mode_bool", "from_str(mode = true)"),
            ("mode_char", "FromStr(mode = 'm')"), ("mode_bytes", "iter(mode = b\"table\")"), ("mode_float", "iter(mode = 1.5)"),
            ("name_int", "into(name = 1)"), ("name_bare", "into(name)"), ("name_bool", "MIN(name = false)"),
            ("vis_bool", "MAX(vis = true)"), ("vis_bare", "next(vis)"), ("vis_int", "next_back(vis = 0)"),
            ("struct_name_int", "iter(struct_name = 7)"), ("struct_name_bare", "names(struct_name)"),
            ("sorted_value_lit", "sorted(name = \"x\")"), ("sorted_value_lit2", "sorted(value = true)"),
            ("feature_eq_lit", "into = \"into\""), ("feature_eq_int", "try_from = 1"),
            ("path_feature", "a::into"), ("leading_colon", "::into"), ("literal_feature", "\"into\""),
            ("nested_list", "as_str(mode(\"table\"))"), ("literal_param", "as_str(\"table\")"),
            ("path_param", "as_str(a::mode = \"table\")"), ("int_feature", "5"),
            ("expr_value", "into(name = concat!(\"a\", \"b\"))"), ("ident_value", "as_str(mode = table)"),
            ("neg_value", "into(name = -1)"),
        ]
        label, raw = rnd.choice(forms)
        fname = raw.split("(")[0].split(" ")[0].strip()
        if fname in present:
            c = _replace_feature(cfg, fname, raw)
        else:
            if fname == "range" and "iter" not in present:
                return None
            c = _add_feature_raw(cfg, raw, rnd.choice(["same", "own_attr"]))
        return s, c, "wrong_kind:" + label
    if op == "range_without_iter":
        c = copy.deepcopy(cfg)
        c["feats"] = [f for f in c["feats"] if f["f"] not in ("iter", "range")]
        c["groups"] = [len(c["feats"])] if c["feats"] else []
        c["pos"] = ["pre"] if c["feats"] else []
        return s, _add_feature_raw(c, rnd.choice(["range", "range(name = \"r\")", "range(vis = \"pub\")"]), "same"), "range_without_iter"
    if op == "range_table_inline":
        c = copy.deepcopy(cfg)
        c["feats"] = [f for f in c["feats"] if f["f"] not in ("iter", "range")]
        c["groups"] = [len(c["feats"])] if c["feats"] else []
        c["pos"] = ["pre"] if c["feats"] else []
        order = rnd.choice([0, 1])
        a, b = "iter(mode = \"table_inline\")", "range"
        raw = "%s, %s" % ((a, b) if order == 0 else (b, a))
        return s, _add_feature_raw(c, raw, rnd.choice(["same", "own_attr"])), "range_table_inline"
    if op == "iter_range_on_holes":
        if m.gapless:
            return None
        c = copy.deepcopy(cfg)
        c["feats"] = [f for f in c["feats"] if f["f"] not in ("iter",)]
        c["groups"] = [len(c["feats"])] if c["feats"] else []
        c["pos"] = ["pre"] if c["feats"] else []
        return s, _add_feature_raw(c, "iter(mode = \"range\")", "same"), "iter_range_on_holes"
    if op == "attr_shape":
        form = rnd.choice(["bare", "name_value", "name_value_int"])
        raw = {"bare": "#[enum_tools]", "name_value": "#[enum_tools = \"into\"]", "name_value_int": "#[enum_tools = 1]"}[form]
        c = copy.deepcopy(cfg)
        c.setdefault("raw_attrs", []).append([rnd.choice(["pre", "post"]), raw])
        return s, c, "attr_shape:" + form
    if op == "variant_attr":
        forms = [
            ("rename_int", "#[enum_tools(rename = 5)]"), ("rename_bare", "#[enum_tools(rename)]"),
            ("other_key", "#[enum_tools(name = \"x\")]"), ("feature_name", "#[enum_tools(into)]"),
            ("two_items", "#[enum_tools(rename = \"a\", rename = \"b\")]"), ("two_items2", "#[enum_tools(rename = \"a\", other)]"),
            ("byte_string", "#[enum_tools(rename = b\"x\")]"), ("bare_attr", "#[enum_tools]"),
            ("name_value_attr", "#[enum_tools = \"x\"]"), ("rename_list", "#[enum_tools(rename(\"x\"))]"),
            ("rename_case", "#[enum_tools(Rename = \"x\")]"), ("rename_char", "#[enum_tools(rename = 'x')]"),
            ("empty_list", "#[enum_tools()]"), ("rename_bool", "#[enum_tools(rename = true)]"),
            ("rename_float", "#[enum_tools(rename = 1.0)]"), ("rename_path", "#[enum_tools(a::rename = \"x\")]"),
            ("rename_ident_value", "#[enum_tools(rename = x)]"), ("skip", "#[enum_tools(skip)]"),
            ("mode_key", "#[enum_tools(mode = \"table\")]"), ("rename_cstr", "#[enum_tools(rename = c\"x\")]"),
        ]
        label, raw = rnd.choice(forms)
        live = [i for i, v in enumerate(s["variants"]) if not v.get("cfg_off")]
        j = rnd.choice(live)
        v = s["variants"][j]
        if rnd.random() < 0.3:
            # another key whose value happens to be the variant's own name
            nm = v["rename"] if v.get("rename") is not None else v["ident"]
            label, raw = rnd.choice([("other_key_own_name", "#[enum_tools(other = %s)]" % E.rust_str_lit(nm)),
                                     ("alias_own_name", "#[enum_tools(alias = %s)]" % E.rust_str_lit(nm)),
                                     ("name_key_own_ident", "#[enum_tools(name = %s)]" % E.rust_str_lit(v["ident"]))])
        v.setdefault("attrs", [])
        if rnd.random() < 0.5:
            v["attrs"].append(raw)
        else:
            v["attrs"].insert(0, raw)
        return s, cfg, "variant_attr:" + label
    if op == "bad_ident":
        fname = rnd.choice([f for f in E.FN_FEATURES if f != "range" or "iter" in present])
        key = rnd.choice(["name"] + (["struct_name"] if fname in E.STRUCT_FEATURES else []))
        bad = rnd.choice(["", "1x", "a b", "a-b", "fn", "a::b", "a.b", " x", "x ", "é!", "self", "r#x y"])
        ptxt = "%s = %s" % (key, E.rust_str_lit(bad))
        if fname in present:
            f = E.feat(cfg, fname)
            keep = [p for p in f.get("params", []) if p[0] != key]
            inner = ", ".join(E.feature_text({"f": "x", "params": [p]})[2:-1] for p in keep)
            raw = "%s(%s)" % (fname, (inner + ", " if inner else "") + ptxt)
            c = _replace_feature(cfg, fname, raw)
        else:
            c = _add_feature_raw(cfg, "%s(%s)" % (fname, ptxt), "same")
        return s, c, "bad_ident:" + key
    raise ValueError(op)


def _sorted_ok(m, what):
    return True
