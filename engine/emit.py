"""Rust source emission: enum declaration, configuration attributes, dispatch glue, whole probes.

Everything here is a pure function of JSON-serialisable dicts, so a replay file regenerates the
identical probe without Hypothesis.

Config:
  {"feats": [{"f": "as_str", "params": [["mode", "table"], ["name", "foo"]]}, ...],   listing order
   "groups": [2, 1],          sizes of consecutive #[enum_tools(..)] attributes (sum == len(feats))
   "pos":    ["pre", "post"]  per group: before / after #[repr]
  }
A param value None means a bare flag (used by `sorted(name, value)`).

Context:
  {"kind": "plain" | "no_prelude" | "fn_body" | "hostile", "items": ["struct Option;", ...],
   "nest": 0|1|2}
"""
import os
from . import model as M

HERE = os.path.dirname(os.path.abspath(__file__))
with open(os.path.join(HERE, "probe_rt.rs")) as _f:
    PROBE_RT = _f.read()

FN_FEATURES = ["as_str", "from_str", "into", "MAX", "MIN", "next", "next_back", "try_from",
               "iter", "names", "range"]
TRAIT_FEATURES = ["Debug", "Display", "FromStr", "Into", "IntoStr", "TryFrom"]
ALL_FEATURES = FN_FEATURES + TRAIT_FEATURES          # the 17 user features
MODE_FEATURES = {"as_str": ["auto", "match", "table"],
                 "from_str": ["auto", "match", "table"],
                 "FromStr": ["auto", "match", "table"],
                 "iter": ["auto", "range", "next_and_back", "table", "table_inline"]}
STRUCT_FEATURES = ["iter", "names"]

HEADER = ("#![allow(dead_code, unused_imports, unused_variables, unused_mut, non_camel_case_types, "
          "non_snake_case, non_upper_case_globals, unreachable_patterns, unused_macros, "
          "unreachable_code, deprecated, uncommon_codepoints, mixed_script_confusables, "
          "confusable_idents, unused_attributes, unused_doc_comments, unused_parens)]\n")


_BIDI = (0x2028, 0x2029, 0x85, 0x200e, 0x200f, 0x202a, 0x202b, 0x202c, 0x202d, 0x202e,
         0x2066, 0x2067, 0x2068, 0x2069)


def rust_str_lit(s, raw=False):
    """A Rust string literal whose value is exactly s."""
    if raw and all(0x20 <= ord(ch) < 0x7f or (ord(ch) >= 0xa0 and ord(ch) not in _BIDI) for ch in s):
        n = 0
        while '"' + "#" * n in s:
            n += 1
        return "r" + "#" * n + '"' + s + '"' + "#" * n
    out = ['"']
    for ch in s:
        o = ord(ch)
        if ch == "\\":
            out.append("\\\\")
        elif ch == '"':
            out.append('\\"')
        elif ch == "\n":
            out.append("\\n")
        elif ch == "\r":
            out.append("\\r")
        elif ch == "\t":
            out.append("\\t")
        elif ch == "\0":
            out.append("\\0")
        elif o < 0x20 or o == 0x7f:
            out.append("\\x%02x" % o)
        elif o in _BIDI:
            out.append("\\u{%x}" % o)
        else:
            out.append(ch)
    out.append('"')
    return "".join(out)


# ---------------------------------------------------------------------------------------------
# config helpers

def feat(cfg, name):
    for f in cfg["feats"]:
        if f["f"] == name:
            return f
    return None


def param(f, key, default=None):
    if f is None:
        return default
    for k, v in f.get("params", []):
        if k == key:
            return v
    return default


def enabled(cfg, name):
    return feat(cfg, name) is not None


def item_name(cfg, name):
    return param(feat(cfg, name), "name", name)


def struct_name(cfg, spec, which):
    dflt = spec.get("ident", "E") + ("Iter" if which == "iter" else "Names")
    return param(feat(cfg, which), "struct_name", dflt)


def feature_text(f):
    if f.get("raw") is not None:
        return f["raw"]
    ps = f.get("params", [])
    if not ps and not f.get("parens"):
        return f["f"]
    parts = []
    for k, v in ps:
        if v is None:
            parts.append(k)
        elif isinstance(v, dict):                   # raw token text for the value (C13)
            parts.append("%s = %s" % (k, v["raw"]))
        else:
            parts.append("%s = %s" % (k, rust_str_lit(v)))
    return "%s(%s)" % (f["f"], ", ".join(parts))


def config_attr_texts(cfg):
    """[(pos, text)] one per #[enum_tools(..)] attribute."""
    feats = cfg["feats"]
    groups = cfg.get("groups") or ([len(feats)] if feats else [])
    pos = cfg.get("pos") or ["pre"] * len(groups)
    out = []
    i = 0
    for g, p in zip(groups, pos):
        chunk = feats[i:i + g]
        i += g
        out.append((p, "#[enum_tools(%s)]" % ", ".join(feature_text(f) for f in chunk)))
    assert i == len(feats), "groups must cover feats"
    for p, t in cfg.get("raw_attrs", []):
        out.append((p, t))
    return out


def variant_text(v):
    lines = []
    for a in v.get("attrs", []):
        lines.append("        " + a)
    if v.get("cfg_off"):
        lines.append("        #[cfg(any())]")
    if v.get("rename") is not None:
        for x in v.get("extra_renames", []):      # earlier rename attributes on the same variant (C17 only)
            lines.append("        #[enum_tools(rename = %s)]" % rust_str_lit(x))
        lit = rust_str_lit(v["rename"], v.get("rename_raw", False))
        if v.get("rename_via_cfg_attr"):
            lines.append("        #[cfg_attr(all(), enum_tools(rename = %s))]" % lit)
        else:
            lines.append("        #[enum_tools(rename = %s)]" % lit)
    d = v["ident"]
    if v.get("disc") is not None:
        d += " = " + v["disc"]
    lines.append("        " + d + ",")
    return "\n".join(lines)


def enum_item_text(spec, cfg, derive_path="EnumTools", with_tools=True, extra_derives="", only_tools=False):
    """The enum item with its derive and attributes."""
    ident = spec.get("ident", "E")
    lines = []
    derives = "::core::clone::Clone, ::core::marker::Copy"
    if extra_derives:
        derives += ", " + extra_derives
    if with_tools:
        derives += ", " + derive_path
    if spec.get("derive_ord") and not only_tools:
        derives += ", ::core::cmp::PartialEq, ::core::cmp::Eq, ::core::cmp::PartialOrd, ::core::cmp::Ord"
    if only_tools:
        derives = derive_path
    lines.append("    #[derive(%s)]" % derives)
    attrs = config_attr_texts(cfg) if with_tools else []
    for p, t in attrs:
        if p == "pre":
            lines.append("    " + t)
    for a in spec.get("enum_attrs_pre", []):
        lines.append("    " + a)
    if spec.get("repr_lines") is not None:          # C12: explicit (possibly invalid) repr attributes
        for rl in spec["repr_lines"]:
            lines.append("    " + rl)
    elif spec.get("repr_via_cfg_attr"):
        lines.append("    #[cfg_attr(all(), repr(%s))]" % spec["repr"])
    else:
        lines.append("    #[repr(%s)]" % spec["repr"])
    for a in spec.get("enum_attrs", []):
        lines.append("    " + a)
    for p, t in attrs:
        if p != "pre":
            lines.append("    " + t)
    vis = spec.get("vis", "pub")
    if spec.get("item_override") is not None:       # C12: struct / union instead of an enum
        lines.append("    %s%s" % (vis + " " if vis else "", spec["item_override"]))
        return "\n".join(lines)
    lines.append("    %senum %s {" % (vis + " " if vis else "", ident))
    for v in spec["variants"]:
        if with_tools:
            lines.append(variant_text(v))
        else:
            vv = dict(v)
            vv["rename"] = None
            lines.append(variant_text(vv))
    lines.append("    }")
    return "\n".join(lines)


# ---------------------------------------------------------------------------------------------
# dispatch glue

def dispatch_text(spec, cfg, ep, in_fn=False):
    """Rust text of the constants and the `match cmd` for one case. `ep` is the path of the enum
    as seen from the dispatch code. Uses absolute paths only (works under no_implicit_prelude)."""
    m = M.RefEnum(spec)
    r = spec["repr"]
    n = m.n
    L = []
    L.append("type R = %s;" % r)
    L.append("const VARS: [%s; %d] = [%s];" % (ep, n, ", ".join("%s::%s" % (ep, i) for i in m.idents)))
    L.append("const SORTED: [%s; %d] = [%s];" % (ep, n, ", ".join("%s::%s" % (ep, m.idents[i]) for i in m.order)))
    L.append("const NAMES: [&'static str; %d] = [%s];" % (n, ", ".join(rust_str_lit(s) for s in m.sorted_names)))
    L.append("fn show(v: &%s) -> ::std::string::String { crate::rt::dec(*v as R) }" % ep)
    L.append("fn key(v: &%s) -> i128 { *v as R as i128 }" % ep)
    L.append("fn okey(v: ::core::option::Option<%s>) -> ::core::option::Option<i128> { match v { ::core::option::Option::Some(x) => ::core::option::Option::Some(x as R as i128), ::core::option::Option::None => ::core::option::Option::None } }" % ep)
    L.append("fn rkey(v: ::core::result::Result<%s, ()>) -> ::core::option::Option<i128> { match v { ::core::result::Result::Ok(x) => ::core::option::Option::Some(x as R as i128), ::core::result::Result::Err(()) => ::core::option::Option::None } }" % ep)
    arms = []
    A = arms.append
    A('"cast" => crate::rt::dec(VARS[crate::rt::idx(a, 0)] as R),')
    en = lambda f: enabled(cfg, f)
    nm = lambda f: item_name(cfg, f)
    lo, hi = M.repr_range(r)
    small = M.repr_bits(r) <= 16
    if en("into"):
        A('"into" => crate::rt::dec(%s::%s(VARS[crate::rt::idx(a, 0)])),' % (ep, nm("into")))
    if en("Into"):
        A('"Into" => crate::rt::dec(<R as ::core::convert::From<%s>>::from(VARS[crate::rt::idx(a, 0)])),' % ep)
        A('"Into_m" => { let x: R = ::core::convert::Into::into(VARS[crate::rt::idx(a, 0)]); crate::rt::dec(x) }')
    if en("try_from"):
        A('"try_from" => crate::rt::opt(%s::%s(crate::rt::parse::<R>(a, 0)), show),' % (ep, nm("try_from")))
        if small:
            A('"try_from_sweep" => crate::rt::sweep::<R, _>(%d, %d, |n: R| okey(%s::%s(n))),' % (lo, hi, ep, nm("try_from")))
    if en("TryFrom"):
        A('"TryFrom" => crate::rt::res(<%s as ::core::convert::TryFrom<R>>::try_from(crate::rt::parse::<R>(a, 0)), show),' % ep)
        A('"TryFrom_m" => { let x: ::core::result::Result<%s, ()> = ::core::convert::TryInto::try_into(crate::rt::parse::<R>(a, 0)); crate::rt::res(x, show) }' % ep)
        if small:
            A('"TryFrom_sweep" => crate::rt::sweep::<R, _>(%d, %d, |n: R| rkey(<%s as ::core::convert::TryFrom<R>>::try_from(n))),' % (lo, hi, ep))
    if en("as_str"):
        A('"as_str" => crate::rt::hex(%s::%s(VARS[crate::rt::idx(a, 0)])),' % (ep, nm("as_str")))
    if en("Display"):
        A('"Display" => crate::rt::fmt_display(VARS[crate::rt::idx(a, 0)]),')
        A('"Display_ts" => crate::rt::fmt_to_string(VARS[crate::rt::idx(a, 0)]),')
    if en("Debug"):
        A('"Debug" => crate::rt::fmt_debug(VARS[crate::rt::idx(a, 0)]),')
    if en("IntoStr"):
        A('"IntoStr" => crate::rt::hex(<&\'static str as ::core::convert::From<%s>>::from(VARS[crate::rt::idx(a, 0)])),' % ep)
    if en("from_str"):
        A('"from_str" => crate::rt::opt(%s::%s(&crate::rt::sarg(a, 0)), show),' % (ep, nm("from_str")))
    if en("FromStr"):
        A('"FromStr" => crate::rt::res(<%s as ::core::str::FromStr>::from_str(&crate::rt::sarg(a, 0)), show),' % ep)
        A('"FromStr_p" => crate::rt::res(str::parse::<%s>(&crate::rt::sarg(a, 0)), show),' % ep)
    if en("MIN"):
        A('"MIN" => show(&%s::%s),' % (ep, nm("MIN")))
    if en("MAX"):
        A('"MAX" => show(&%s::%s),' % (ep, nm("MAX")))
    if en("next"):
        A('"next" => crate::rt::opt(%s::%s(VARS[crate::rt::idx(a, 0)]), show),' % (ep, nm("next")))
        A('"walk" => crate::rt::walk(VARS[crate::rt::idx(a, 0)], %d, %s::%s, show),' % (n + 2, ep, nm("next")))
    if en("next_back"):
        A('"next_back" => crate::rt::opt(%s::%s(VARS[crate::rt::idx(a, 0)]), show),' % (ep, nm("next_back")))
        A('"walk_back" => crate::rt::walk(VARS[crate::rt::idx(a, 0)], %d, %s::%s, show),' % (n + 2, ep, nm("next_back")))
    A('"ref_iter" => crate::rt::run_iter(crate::rt::vec_iter(&SORTED), a, show),')
    A('"ref_range" => crate::rt::run_iter(crate::rt::ref_range(&SORTED, key, key(&VARS[crate::rt::idx(a, 0)]), key(&VARS[crate::rt::idx(a, 1)])), &a[2..], show),')
    A('"ref_names" => crate::rt::run_iter_ord(crate::rt::vec_iter(&NAMES), a, crate::rt::show_str),')
    ri = "run_iter_ord" if spec.get("derive_ord") else "run_iter"
    if spec.get("derive_ord"):
        arms[:] = [x.replace('"ref_iter" => crate::rt::run_iter(', '"ref_iter" => crate::rt::run_iter_ord(').replace(
            '"ref_range" => crate::rt::run_iter(', '"ref_range" => crate::rt::run_iter_ord(') for x in arms]
    if en("iter"):
        A('"iter" => crate::rt::%s(%s::%s(), a, show),' % (ri, ep, nm("iter")))
    if en("range"):
        A('"range" => crate::rt::%s(%s::%s(VARS[crate::rt::idx(a, 0)], VARS[crate::rt::idx(a, 1)]), &a[2..], show),' % (ri, ep, nm("range")))
    if en("names"):
        A('"names" => crate::rt::run_iter_ord(%s::%s(), a, crate::rt::show_str),' % (ep, nm("names")))
    if en("names") and en("iter"):
        A('"zip" => crate::rt::zip_list(%s::%s(), %s::%s(), show, crate::rt::show_str),' % (ep, nm("iter"), ep, nm("names")))
    A('_ => ::std::panic!("HARNESS: unknown command {}", cmd),')
    L.append("match cmd {\n            " + "\n            ".join(arms) + "\n        }")
    return L


def module_text(k, spec, cfg, ctx=None, lib=None):
    """One case module `c<k>` with its dispatch."""
    ctx = ctx or {"kind": "plain"}
    kind = ctx.get("kind", "plain")
    ident = spec.get("ident", "E")
    out = []
    if kind == "fn_body":
        body = dispatch_text(spec, cfg, ident, in_fn=True)
        out.append("mod c%d {" % k)
        out.append("  pub mod d {")
        out.append("    pub fn dispatch(cmd: &str, a: &[&str]) -> ::std::string::String {")
        out.append("    use ::enum_tools::EnumTools;")
        out.append(enum_item_text(spec, cfg))
        for l in body:
            out.append("        " + l)
        out.append("    }")
        out.append("  }")
        out.append("}")
        return "\n".join(out)
    if kind == "extern_lib":
        ep = "::%s::%s" % (lib, ident)
        body = dispatch_text(spec, cfg, ep)
        out.append("mod c%d {" % k)
        out.append("  pub mod d {")
        for l in body[:-1]:
            out.append("    " + l)
        out.append("    pub fn dispatch(cmd: &str, a: &[&str]) -> ::std::string::String {")
        out.append("        " + body[-1])
        out.append("    }")
        out.append("  }")
        out.append("}")
        return "\n".join(out)
    nest = ctx.get("nest", 0)
    ep = "super::" + ident
    body = dispatch_text(spec, cfg, ep)
    out.append("mod c%d {" % k)
    opened = 1
    for j in range(nest):
        out.append("pub mod n%d {" % j)
        opened += 1
    if kind in ("no_prelude", "hostile") and ctx.get("no_prelude", kind == "no_prelude"):
        out.append("    #![no_implicit_prelude]")
    out.append("  pub mod d {")
    for l in body[:-1]:
        out.append("    " + l)
    out.append("    pub fn dispatch(cmd: &str, a: &[&str]) -> ::std::string::String {")
    out.append("        " + body[-1])
    out.append("    }")
    out.append("  }")
    for it in ctx.get("items", []):
        out.append("    " + it)
    out.append("    use ::enum_tools::EnumTools;")
    out.append(enum_item_text(spec, cfg))
    for j in range(opened):
        out.append("}")
    return "\n".join(out)


def dispatch_path(k, ctx=None):
    ctx = ctx or {}
    nest = ctx.get("nest", 0) if ctx.get("kind", "plain") not in ("fn_body", "extern_lib") else 0
    return "c%d::%sd::dispatch" % (k, "".join("n%d::" % j for j in range(nest)))


def probe_source(cases, externs=()):
    """cases: list of (spec, cfg, ctx[, lib]). Returns the full probe source."""
    parts = [HEADER]
    for e in externs:
        parts.append("extern crate %s;" % e)
    parts.append(PROBE_RT)
    paths = []
    for k, c in enumerate(cases):
        spec, cfg, ctx = c[0], c[1], c[2]
        lib = c[3] if len(c) > 3 else None
        parts.append(module_text(k, spec, cfg, ctx, lib))
        paths.append(dispatch_path(k, ctx))
    parts.append("fn main() { rt::main_loop(&[%s]); }" % ", ".join(paths))
    return "\n".join(parts) + "\n"


def lib_source(spec, cfg, no_std=True):
    """A library crate holding only the derive (for the no_std context)."""
    s = spec_with(spec, vis="pub")
    return ("%s#![allow(dead_code)]\nuse ::enum_tools::EnumTools;\n%s\n" %
            ("#![no_std]\n" if no_std else "", enum_item_text(s, cfg)))


def spec_with(spec, **kw):
    s = dict(spec)
    s.update(kw)
    return s


# ---------------------------------------------------------------------------------------------
# script building with expected results from the model

class Script:
    """Accumulates (line, expected) pairs for one probe; `k` is the module index."""

    def __init__(self):
        self.lines = []
        self.expected = []
        self.tags = []

    def add(self, k, cmd, args, expected, tag=None):
        self.lines.append("%d %s%s" % (k, cmd, (" " + " ".join(str(a) for a in args)) if args else ""))
        self.expected.append(expected)
        self.tags.append(tag or cmd)

    def text(self):
        return "\n".join(self.lines) + "\n"


def opt(v):
    return "N" if v is None else "S%d" % v


def sweep_expected(m):
    lo, hi = M.repr_range(m.repr)
    hits = "".join("%d>%d," % (v, v) for v in m.sorted_values)
    return hits + "miss=%d" % ((hi - lo + 1) - m.n)


def show_int(x):
    return str(x)
