"""Sensitivity self-test: run checks against the seeded changes under /verif/seeded/<id>/.

  ./check selftest [--only <id>[,<id>..]] [--props all|listed] [--examples N] [--tier quick]

For every seeded change: copy /repo to a scratch directory outside /repo and /verif, apply patch.diff, run the
listed checks (meta.json "caught_by", or every property it "breaks") with VERIF_REPO pointing at the copy, and
report which checks exit 1. Never touches /repo. Not a MANIFEST check.
"""
import argparse
import json
import os
import shutil
import subprocess
import sys
import tempfile
import time

VERIF = os.path.dirname(os.path.dirname(os.path.abspath(__file__)))
SEEDED = os.path.join(VERIF, "seeded")


def main():
    ap = argparse.ArgumentParser()
    ap.add_argument("--only")
    ap.add_argument("--props", default="listed")
    ap.add_argument("--examples", type=int)
    ap.add_argument("--tier", default="quick")
    ap.add_argument("--seed", type=int, default=0)
    args = ap.parse_args(sys.argv[1:])
    ids = sorted(d for d in os.listdir(SEEDED) if os.path.isdir(os.path.join(SEEDED, d)))
    if args.only:
        ids = [i for i in ids if i in args.only.split(",")]
    rows = []
    for sid in ids:
        d = os.path.join(SEEDED, sid)
        meta = json.load(open(os.path.join(d, "meta.json")))
        scratch = tempfile.mkdtemp(prefix="verif-selftest-", dir="/tmp")
        try:
            r = os.path.join(scratch, "r")
            subprocess.run(["rsync", "-a", "--exclude", "target", "--exclude", ".git", "/repo/", r + "/"], check=True)
            p = subprocess.run(["patch", "-p1", "--no-backup-if-mismatch", "-i", os.path.join(d, "patch.diff")], cwd=r,
                               stdout=subprocess.PIPE, stderr=subprocess.STDOUT, text=True)
            if p.returncode != 0:
                rows.append((sid, "-", "patch does not apply: " + p.stdout[-200:]))
                continue
            if args.props == "all":
                props = ["C%02d" % i for i in range(1, 20)]
            else:
                props = sorted(set((meta.get("breaks") or []) + (meta.get("also_try") or [])))
            for prop in props:
                cmd = [os.path.join(VERIF, "check"), prop, "--tier", args.tier, "--seed", str(args.seed)]
                if args.examples:
                    cmd += ["--examples", str(args.examples)]
                env = dict(os.environ)
                env["VERIF_REPO"] = r
                t0 = time.time()
                q = subprocess.run(cmd, env=env, stdout=subprocess.PIPE, stderr=subprocess.STDOUT, text=True)
                first = next((l for l in q.stdout.split("\n") if l.startswith("  {")), "")
                rows.append((sid, prop, "exit=%d %.0fs %s" % (q.returncode, time.time() - t0, first[:160])))
                print("%-28s %-4s %s" % rows[-1], flush=True)
        finally:
            shutil.rmtree(scratch, ignore_errors=True)
    missed = [r for r in rows if not r[2].startswith("exit=1")]
    print("\n%d runs, %d did not report a violation" % (len(rows), len(missed)))
    # the evidence files were rewritten by runs against mutated trees: the caller re-runs the real checks afterwards
    return 0


if __name__ == "__main__":
    sys.exit(main())
