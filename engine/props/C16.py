"""C16 - generated code is independent of user scope (no_std, no prelude, shadowing)."""
import copy

from hypothesis import strategies as st

from .. import build
from .. import emit as E
from .. import judge as J
from .. import model as M
from .. import strategies as S
from . import common as C

ID = "C16"
TIERS = {"quick": 560, "thorough": 8000}
RULE = ("case = generated (declaration, configuration) placed in 2-4 surrounding contexts in one probe next to the "
        "plain context: #![no_implicit_prelude] module, enum declared inside a fn body, a #![no_std] library crate "
        "linked into the std runner, and a hostile scope = random subset (or all) of user items named like prelude/core "
        "things in the right namespace: unit structs Option Result Some None Ok Err String Vec Box Formatter "
        "RangeInclusive MaybeUninit Map Copied IntoIter Iter Self-like names; traits Iterator DoubleEndedIterator "
        "ExactSizeIterator FusedIterator IntoIterator From Into TryFrom TryInto FromStr Copy Clone Sized Fn FnMut FnOnce "
        "Debug Display Write ToString AsRef Default PartialEq Eq Ord PartialOrd (with same-named methods); modules core "
        "std alloc iter option result mem marker convert fmt ops slice array primitive str; macros panic unreachable write "
        "vec matches format assert todo unimplemented (expanding to compile_error!); fns drop transmute; optionally "
        "combined with no_implicit_prelude. Oracle: compiles, and every context's transcript equals the plain context's "
        "and the model's. In addition a small-scope enumeration compiles every feature subset of size <= 2 (quick) / <= 3 "
        "(thorough) x every mode on 11 fixed shapes (incl. 18 runs and full 256-variant 8-bit enums) inside a #![no_std] "
        "crate and inside #![no_implicit_prelude] modules, and every single feature plus the all-features set inside the "
        "complete hostile scope. non-trivial = hostile set non-empty or no_std; distinct by (declaration, configuration, contexts)")
ASSUMPTIONS = ["not generated (outside 'named like prelude or core items'): user items named like primitive types, and "
               "user traits with blanket impls that inject same-named methods on foreign types; edition fixed at 2021"]

PROFILE = S.profile(renames=0.3, dups=0.0, attrs=0.1, sizes=[("small", 84), ("medium", 10), ("large", 2), ("full8", 4)], vis=["pub"], idents=0.0)

H_TYPES = ["Option", "Result", "Some", "None", "Ok", "Err", "String", "Vec", "Box", "Formatter", "RangeInclusive",
           "MaybeUninit", "Map", "Copied", "IntoIter", "Iter", "Ordering", "Range", "Infallible"]
H_TRAITS = {"Iterator": "fn next(&self) {} fn size_hint(&self) {} fn nth(&self) {} fn fold(&self) {} fn last(&self) {} fn map(&self) {} fn copied(&self) {} fn find(&self) {} fn enumerate(&self) {} fn zip(&self) {}",
            "DoubleEndedIterator": "fn next_back(&self) {} fn nth_back(&self) {} fn rfold(&self) {}",
            "ExactSizeIterator": "fn len(&self) {}", "FusedIterator": "", "IntoIterator": "fn into_iter(&self) {}",
            "From": "fn from() {}", "Into": "fn into(&self) {}", "TryFrom": "fn try_from() {}", "TryInto": "fn try_into(&self) {}",
            "FromStr": "fn from_str() {}", "Copy": "", "Clone": "fn clone(&self) {}", "Sized": "", "Fn": "", "FnMut": "", "FnOnce": "",
            "Debug": "fn fmt(&self) {}", "Display": "fn fmt(&self) {}", "Write": "fn write_str(&self) {}", "ToString": "fn to_string(&self) {}",
            "AsRef": "fn as_ref(&self) {}", "Default": "fn default() {}", "PartialEq": "fn eq(&self) {}", "Eq": "", "Ord": "fn cmp(&self) {}",
            "PartialOrd": "fn partial_cmp(&self) {}"}
H_MODS = ["core", "std", "alloc", "iter", "option", "result", "mem", "marker", "convert", "fmt", "ops", "slice", "array",
          "primitive", "str", "clone", "cmp"]
H_MACROS = ["panic", "unreachable", "write", "vec", "matches", "format", "assert", "todo", "unimplemented", "debug_assert", "assert_eq"]
H_FNS = ["drop", "transmute", "unreachable_unchecked", "size_of", "swap"]


USER_IMPORTS = [
    "use ::core::iter::{Iterator, IntoIterator, DoubleEndedIterator, ExactSizeIterator, FusedIterator, Map, Copied};",
    "use ::core::option::Option::{self, Some, None};",
    "use ::core::result::Result::{self, Ok, Err};",
    "use ::core::mem::{self, MaybeUninit, transmute};",
    "use ::core::ops::RangeInclusive;",
    "use ::core::fmt::{self, Debug, Display, Formatter, Write};",
    "use ::core::convert::{From, Into, TryFrom, TryInto};",
    "use ::core::str::FromStr;",
    "use ::core::marker::{Copy, Sized};",
    "use ::core::clone::Clone;",
    "use ::core::array::IntoIter;",
    "use ::core::slice::Iter;",
]


def hostile_items(names, spec=None):
    out = []
    mid = None
    if spec is not None:
        sv = M.RefEnum(spec).sorted_values
        mid = (sv[1] if len(sv) > 1 else sv[0], sv[-2] if len(sv) > 1 else sv[0])
    for n in names:
        kind, name = n.split(":")
        if kind == "primmod":
            # a user module named like an integer type (as the legacy `core::u8` modules are): a two-segment path
            # `u8::MAX` written by the derive would find it; the constants are well typed and equal to inner discriminants
            lo, hi = (mid if (mid is not None and name == spec["repr"]) else (1, 1))
            out.append("pub mod %s { pub const MIN: %s = %d; pub const MAX: %s = %d; pub const BITS: u32 = 1; }" % (name, name, lo, name, hi))
        elif kind == "type":
            out.append("pub struct %s;" % name)
        elif kind == "trait":
            out.append("pub trait %s { %s }" % (name, H_TRAITS[name]))
        elif kind == "mod":
            out.append("pub mod %s { pub struct Option; pub mod option { pub struct Option; } pub mod iter { pub struct Iterator; } pub mod mem { pub fn transmute() {} } }" % name)
        elif kind == "macro":
            out.append("macro_rules! %s { ($($t:tt)*) => { ::core::compile_error!(\"user macro %s was used by generated code\") } }" % (name, name))
        elif kind == "fn":
            out.append("pub fn %s() {}" % name)
    return out


ALL_HOSTILE = (["type:" + n for n in H_TYPES] + ["trait:" + n for n in H_TRAITS if n not in H_TYPES] +
               ["mod:" + n for n in H_MODS] + ["macro:" + n for n in H_MACROS] + ["fn:" + n for n in H_FNS] +
               ["primmod:" + n for n in M.REPRS])


@st.composite
def cases(draw, tier="quick"):
    spec = draw(S.enum_specs(PROFILE))
    cfg = draw(S.configs(spec, p_on=[0.2, 0.55, 0.55, 0.85], p_vis=0.0))
    # a struct named like one of the hostile items would be the *user's* name clash (same namespace, same module)
    taken = set(H_TYPES) | set(H_TRAITS) | set(H_MODS) | set(H_FNS)
    for f in cfg["feats"]:
        f["params"] = [p_ for p_ in f["params"] if not (p_[0] == "struct_name" and p_[1] in taken)]
    ctxs = draw(st.lists(st.sampled_from(["hostile", "no_prelude", "fn_body", "no_std_lib", "hostile_all", "hostile", "imports", "two_enums"]),
                         min_size=2, max_size=4, unique=True))
    hostile = draw(st.lists(st.sampled_from(ALL_HOSTILE), min_size=1, max_size=12, unique=True))
    # a name may be used once per namespace: a unit struct and a trait of the same name collide (type namespace)
    seen = set()
    hs = []
    for h in hostile:
        nm = h.split(":")[1]
        kind = h.split(":")[0]
        key = ("macro" if kind == "macro" else "item", nm)
        if key in seen:
            continue
        seen.add(key)
        hs.append(h)
    return {"spec": spec, "cfg": cfg, "contexts": ctxs, "hostile": hs, "hostile_no_prelude": draw(st.booleans()),
            "seed": draw(st.integers(0, 2 ** 31))}


def fixed_cases(tier):
    return [{"small_scope": 3 if tier == "thorough" else 2}]


def run_small_scope(case):
    """Every feature subset of size <= k x every mode, on fixed shapes, compiled (check-only, batched) inside a
    #![no_std] crate, inside #![no_implicit_prelude] modules and (subsets of size 1 and the all-features set) inside the
    complete hostile scope."""
    import concurrent.futures
    out = J.Outcome()
    hostile_prefix = "".join("    " + it + "\n" for it in hostile_items(all_hostile_unique()))
    jobs = []
    for name, r, vals in C.SCOPE_SHAPES + C.SCOPE_SHAPES_EXTRA:
        spec = C.scope_spec(r, vals)
        m = M.RefEnum(spec)
        big = len(vals) > 12
        cfgs = C.scope_configs(1 if len(vals) > 100 else (2 if big else case["small_scope"]), m.gapless)
        singles = C.scope_configs(1, m.gapless) + [S.simple_config(E.ALL_FEATURES)]
        for ctx, kw, use in (("no_std", {"crate_attrs": "#![no_std]\n"}, cfgs),
                             ("no_implicit_prelude", {"module_prefix": "    #![no_implicit_prelude]\n"}, cfgs),
                             ("user_imports", {"module_prefix": "".join("    " + l + "\n" for l in USER_IMPORTS)}, cfgs),
                             ("hostile_all", {"module_prefix": hostile_prefix}, singles),
                             ("hostile_all+no_implicit_prelude", {"module_prefix": "    #![no_implicit_prelude]\n" + hostile_prefix}, singles)):
            items = [(i, E.enum_item_text(spec, c)) for i, c in enumerate(use)]
            out.count("small_scope_%s" % ctx, len(items))
            step = 60 if len(vals) > 100 else 400
            for b in range(0, len(items), step):
                jobs.append((name, ctx, spec, use, kw, items[b:b + step]))
    with concurrent.futures.ThreadPoolExecutor(max_workers=16) as ex:
        results = list(ex.map(lambda j: (j, C.failing_items(j[5], **j[4])), jobs))
    for (name, ctx, spec, use, _kw, _items), bad in results:
        for i, err in bad[:2]:
            # confirm that the same derive compiles in the plain context: otherwise it is not a scope problem
            plain_bad = C.failing_items([(0, E.enum_item_text(spec, use[i]))])
            if plain_bad:
                continue
            out.violate("the derive compiles in a plain scope but not in this one (small-scope enumeration)", context=ctx,
                        shape=name, config=J.cfg_text(use[i]), stderr=err)
    out.nontrivial = True
    out.fingerprint = J.fp("small_scope", case["small_scope"])
    out.sample = {"small_scope_max_features": case["small_scope"], "contexts": ["no_std", "no_implicit_prelude", "hostile_all"],
                  "shapes": [n for n, _r, _v in C.SCOPE_SHAPES + C.SCOPE_SHAPES_EXTRA]}
    return out


def all_hostile_unique():
    seen = set()
    out = []
    for h in ALL_HOSTILE:
        kind, nm = h.split(":")
        key = ("macro" if kind == "macro" else "item", nm)
        if key in seen:
            continue
        seen.add(key)
        out.append(h)
    return out


def run_case(case):
    if "small_scope" in case:
        return run_small_scope(case)
    out = J.Outcome()
    spec, cfg = case["spec"], case["cfg"]
    m = M.RefEnum(spec)
    modules = [(spec, cfg, {"kind": "plain"})]
    externs = {}
    labels = []
    for cx in case["contexts"]:
        if cx == "no_prelude":
            modules.append((spec, cfg, {"kind": "no_prelude"}))
        elif cx == "fn_body":
            s2 = copy.deepcopy(spec)
            modules.append((s2, cfg, {"kind": "fn_body"}))
        elif cx == "hostile":
            modules.append((spec, cfg, {"kind": "hostile", "items": hostile_items(case["hostile"], spec),
                                        "no_prelude": case["hostile_no_prelude"]}))
        elif cx == "hostile_all":
            modules.append((spec, cfg, {"kind": "hostile", "items": hostile_items(all_hostile_unique(), spec),
                                        "no_prelude": case["hostile_no_prelude"]}))
        elif cx == "imports":
            # the user imports the real core items under their own names: anything the derive puts at module level
            # (rather than inside its own fns / impls) collides with these
            modules.append((spec, cfg, {"kind": "hostile", "items": USER_IMPORTS, "no_prelude": case["hostile_no_prelude"]}))
        elif cx == "two_enums":
            # a second derive in the same module (own identifier, default names)
            other = copy.deepcopy(spec)
            other["ident"] = "Other"
            ocfg = {"feats": [{"f": f["f"], "params": [p_ for p_ in f["params"] if p_[0] == "mode"]} for f in cfg["feats"]],
                    "groups": [len(cfg["feats"])] if cfg["feats"] else [], "pos": ["pre"] if cfg["feats"] else []}
            modules.append((spec, cfg, {"kind": "hostile", "items": [E.enum_item_text(other, ocfg)], "no_prelude": False}))
        elif cx == "no_std_lib":
            lib_src = E.lib_source(spec, cfg, no_std=True)
            lc = build.rustc(lib_src, mode="rlib", crate_name="lib0")
            if not lc.ok:
                out.violate("the derive does not compile in a #![no_std] crate", stderr=J.short_err(lc.stderr),
                            config=J.cfg_text(cfg))
                continue
            externs["lib0"] = lc.path
            modules.append((E.spec_with(spec, vis="pub"), cfg, {"kind": "extern_lib"}, "lib0"))
        labels.append(cx)
    sc = C.script_for_modules(m, [cfg] * len(modules), J.fp(case), n_hist=3, n_pairs=8, n_strings=12, limit=16)
    obs = J.run_script(out, modules, sc, externs=externs)
    if obs is None and out.violations:
        # attribute the compile failure to a context: compile each context alone with the plain one
        for k in range(1, len(modules)):
            _src, c1 = J.compile_probe([modules[0], modules[k]], externs if modules[k][2]["kind"] == "extern_lib" else None)
            if not c1.ok:
                out.violations[-1].setdefault("failing_contexts", []).append(labels[k - 1] if k - 1 < len(labels) else "?")
        _src, c0 = J.compile_probe([modules[0]])
        out.violations[-1]["plain_context_compiles"] = c0.ok
    C.differential(out, sc, obs, "surrounding contexts")
    C.std_labels(out, m)
    for cx in labels:
        out.count("context_" + cx)
    if "hostile" in labels:
        out.count("hostile_items", len(case["hostile"]))
        for h in case["hostile"]:
            out.count("hostile_kind_" + h.split(":")[0])
    out.nontrivial = any(c in ("hostile", "hostile_all", "no_std_lib") for c in labels)
    out.fingerprint = J.fp(m.repr, m.values[:64], J.cfg_text(cfg), labels, case["hostile"])
    out.sample = {"spec": J.abridge_spec(spec), "config": J.cfg_text(cfg), "contexts": labels,
                  "hostile_items": hostile_items(case["hostile"])[:6] if "hostile" in labels else []}
    return out
