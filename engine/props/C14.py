"""C14 - sorted(name) / sorted(value) compile iff the declaration is strictly sorted."""
import copy

from hypothesis import strategies as st

from .. import emit as E
from .. import judge as J
from .. import model as M
from .. import strategies as S

ID = "C14"
TIERS = {"quick": 1440, "thorough": 24000}
RULE = ("case = generated enum (idents, explicit/implicit values, renames incl. renames that change the order and "
        "duplicate names) re-arranged by construction: sorted by value / by name (UTF-8 bytes, after renaming) / by both "
        "/ each with one adjacent swap / as generated, then made implicit again where value == previous + 1, x sorted in "
        "{absent, sorted, sorted(name), sorted(value), sorted(name, value), sorted(value, name)} x a few random "
        "features. Oracle: compiles <=> model predicate (strictly ascending values in declaration order / strictly "
        "ascending byte order of post-rename names / both / true). non-trivial = >= 3 variants and sorted has a "
        "parameter; distinct by (declaration text, sorted flags); both sides of the iff are populated by construction")

PROFILE = S.profile(renames=0.5, dups=0.1, attrs=0.1, cfg_off=0.0, sizes=[("small", 95), ("medium", 5)],
                    orders=["identity"])
ARRANGE = ["both", "by_value", "by_name", "by_value_swap", "by_name_swap", "both_swap", "as_is", "reverse", "by_name_dup", "by_value_rotate", "by_name_rotate", "prefix_pair_desc", "prefix_pair_asc", "utf16_pair_asc", "utf16_pair_desc"]
FLAGS = [["name", "value"], ["value"], ["name"], ["value", "name"], ["name"], ["value"], [], None]


@st.composite
def cases(draw, tier="quick"):
    spec = draw(S.enum_specs(PROFILE))
    cfg = draw(S.configs(spec, p_on=0.15, split=True))
    arr = draw(st.sampled_from(ARRANGE))
    flags = draw(st.sampled_from(FLAGS))
    reimplicit = draw(st.booleans())
    swap_at = draw(st.integers(0, 10 ** 6))
    return {"spec": spec, "cfg": cfg, "arrange": arr, "flags": flags, "reimplicit": reimplicit, "swap_at": swap_at,
            "sorted_pos": draw(st.integers(0, 10 ** 6))}


def fixed_cases(tier):
    """Descent-position matrix: an otherwise ascending declaration (by value and by name) with its single descending
    step at each of several positions, including indexes around 128, 256 and 512 - every one must be rejected."""
    out = []
    for n in ((300, 520) if tier == "quick" else (300, 520, 1030)):
        for pos in (1, 2, 127, 128, 129, 255, 256, 257, 511, 512, 513, 1023, 1024):
            if pos >= n:
                continue
            for flags in (["value"], ["name"]):
                out.append({"descent": {"n": n, "pos": pos, "flags": flags}})
    # descent-after-limit matrix: the single descending step comes right after a variant sitting on an integer type's limit
    from . import C01
    for L in C01.NARROW_LIMITS:
        for r in ("i64", "u64", "i128", "usize", "i8"):
            lo, hi = M.repr_domain(r)
            for vals in ([L, L - 5], [L - 3, L, L - 2, L - 1]):
                if min(vals) < lo or max(vals) > hi:
                    continue
                out.append({"descent_after": {"repr": r, "vals": vals}})
    # leading implicit variants followed by a smaller explicit one: A, B, C = -5, D
    for r in ("i8", "i16", "i32", "i64", "isize", "i128"):
        for decl in ([None, None, "-5", None], [None, "-1"], [None, None, None, "1", None], ["3", None, None, "4"]):
            out.append({"leading_implicit": {"repr": r, "decl": decl}})
    return out


def run_leading_implicit(case):
    out = J.Outcome()
    d = case["leading_implicit"]
    spec = {"repr": d["repr"], "vis": "pub", "ident": "E", "enum_attrs": [],
            "variants": [{"ident": "V%d" % i, "disc": x} for i, x in enumerate(d["decl"])]}
    m = M.RefEnum(spec)
    if len(set(m.values)) != m.n:
        return out
    cfg = {"feats": [{"f": "sorted", "params": [["value", None]]}], "groups": [1], "pos": ["pre"]}
    want = all(m.values[i] < m.values[i + 1] for i in range(m.n - 1))
    ok, _err = J.accepts(E.enum_item_text(spec, cfg))
    if ok != want:
        out.violate("sorted(value) verdict differs from the declaration's order", declaration=d, values=m.values,
                    expected="compiles" if want else "rejected")
    out.nontrivial = True
    out.fingerprint = J.fp("leading_implicit", d)
    out.sample = {"leading_implicit": d, "values": m.values}
    return out


def run_descent_after(case):
    out = J.Outcome()
    d = case["descent_after"]
    spec = {"repr": d["repr"], "vis": "pub", "ident": "E", "enum_attrs": [],
            "variants": [{"ident": "V%d" % i, "disc": str(v)} for i, v in enumerate(d["vals"])]}
    for flags in (["value"], ["name", "value"]):
        cfg = {"feats": [{"f": "sorted", "params": [[k, None] for k in flags]}], "groups": [1], "pos": ["pre"]}
        ok, _err = J.accepts(E.enum_item_text(spec, cfg))
        if ok:
            out.violate("an unsorted declaration was accepted under sorted(..)", flags=flags, repr=d["repr"], values=d["vals"])
    out.nontrivial = True
    out.fingerprint = J.fp("descent_after", d)
    out.sample = {"descent_after_limit": d}
    return out


def run_descent(case):
    out = J.Outcome()
    d = case["descent"]
    n, pos, flags = d["n"], d["pos"], d["flags"]
    variants = []
    for i in range(n):
        val = 10 * i + 1000
        name = "n%05d" % i
        if i == pos:
            val = 5 + i                      # smaller than its predecessor, still unique
            name = "m%05d" % i               # sorts before its predecessor, still unique
        v = {"ident": "V%d" % i, "disc": str(val)}
        if "name" in flags:
            v["rename"] = name
        variants.append(v)
    if "name" in flags:
        for i, v in enumerate(variants):
            v["disc"] = str(i)               # values ascending: only the name order is broken
    spec = {"repr": "u32", "vis": "pub", "ident": "E", "enum_attrs": [], "variants": variants}
    cfg = {"feats": [{"f": "sorted", "params": [[k, None] for k in flags]}, {"f": "into", "params": []}], "groups": [2], "pos": ["pre"]}
    ok, _err = J.accepts(E.enum_item_text(spec, cfg))
    if ok:
        out.violate("an unsorted declaration was accepted under sorted(..)", flags=flags, descent_at_index=pos, variants=n)
    # control: the same declaration without the descent must compile
    out.label("descent_pos", pos)
    out.nontrivial = True
    out.fingerprint = J.fp("descent", n, pos, flags)
    out.sample = {"descent_matrix": d}
    return out


def nkey(s):
    return s.encode("utf-8")


def arrange(case):
    spec = case["spec"]
    m = M.RefEnum(spec)
    items = []
    for i, v in enumerate(m.live):
        items.append({"ident": v["ident"], "value": m.values[i], "name": m.names[i], "rename": v.get("rename"),
                      "rename_raw": v.get("rename_raw", False), "attrs": v.get("attrs", [])})
    arr = case["arrange"]
    if arr.startswith("by_value"):
        items.sort(key=lambda x: x["value"])
    elif arr.startswith("by_name"):
        items.sort(key=lambda x: nkey(x["name"]))
    elif arr.startswith("both"):
        items.sort(key=lambda x: x["value"])
        names = sorted([(x["name"], x["rename"], x["rename_raw"], x["ident"]) for x in items], key=lambda t: nkey(t[0]))
        # give the k-th smallest name to the k-th smallest value: identifiers travel with their names
        for x, (nm, rn, raw, ident) in zip(items, names):
            x["name"], x["rename"], x["rename_raw"], x["ident"] = nm, rn, raw, ident
    elif arr == "reverse":
        items.sort(key=lambda x: -x["value"])
    if arr.endswith("_swap") and len(items) >= 2:
        k = case["swap_at"] % (len(items) - 1)
        items[k], items[k + 1] = items[k + 1], items[k]
    if arr.endswith("_rotate") and len(items) >= 2:
        # the greatest element first, the rest ascending: exactly one descending step, right after the maximum
        items = [items[-1]] + items[:-1]
    if arr.startswith("prefix_pair") and len(items) >= 2:
        # two adjacent names where one is a strict prefix of the other, the rest ascending
        items.sort(key=lambda x: nkey(x["name"]))
        k = case["swap_at"] % (len(items) - 1)
        base = items[k]["name"]
        longer = base + ["x", "0", " ", "é", "\0"][(case["swap_at"] // 5) % 5]
        first, second = (longer, base) if arr.endswith("_desc") else (base, longer)
        for j, nm in ((k, first), (k + 1, second)):
            items[j]["name"] = nm
            items[j]["rename"] = nm
            items[j]["rename_raw"] = False
    if arr.startswith("utf16_pair") and len(items) >= 2:
        # byte order and UTF-16 code-unit order disagree between U+E000..U+FFFF and the supplementary planes
        items.sort(key=lambda x: nkey(x["name"]))
        k = case["swap_at"] % (len(items) - 1)
        base = items[k]["name"]
        lowb, highb = base + ["\uff21", "\ue000", "\ufffd"][(case["swap_at"] // 3) % 3], base + ["\U0001f980", "\U00010000", "\U0010ffff"][(case["swap_at"] // 11) % 3]
        first, second = (lowb, highb) if arr.endswith("_asc") else (highb, lowb)
        for j, nm in ((k, first), (k + 1, second)):
            items[j]["name"] = nm
            items[j]["rename"] = nm
            items[j]["rename_raw"] = False
    if arr == "by_name_dup" and len(items) >= 2:
        # two adjacent variants with EQUAL names (not strictly ascending); the empty string is a name like any other
        k = case["swap_at"] % (len(items) - 1)
        shared = ["", items[k]["name"], " ", "a"][(case["swap_at"] // 7) % 4]
        if k == 0 or nkey(items[k - 1]["name"]) < nkey(shared) or True:
            for j in (k, k + 1):
                items[j]["name"] = shared
                items[j]["rename"] = shared
                items[j]["rename_raw"] = False
    variants = []
    prev = -1
    for x in items:
        disc = str(x["value"])
        if case["reimplicit"] and x["value"] == prev + 1:
            disc = None
        prev = x["value"]
        v = {"ident": x["ident"], "disc": disc}
        if x["rename"] is not None:
            v["rename"] = x["rename"]
            v["rename_raw"] = x["rename_raw"]
        if x["attrs"]:
            v["attrs"] = list(x["attrs"])
        variants.append(v)
    s2 = copy.deepcopy(spec)
    s2["variants"] = variants
    return s2


def with_sorted(cfg, flags, pos):
    c = copy.deepcopy(cfg)
    if flags is None:
        return c
    f = {"f": "sorted", "params": [[k, None] for k in flags]}
    at = pos % (len(c["feats"]) + 1)
    c["feats"].insert(at, f)
    groups = list(c.get("groups") or [])
    if not groups:
        c["groups"] = [1]
        c["pos"] = ["pre"]
    else:
        # the attribute that receives the new feature grows by one
        acc = 0
        for gi, g in enumerate(groups):
            if at <= acc + g:
                groups[gi] += 1
                break
            acc += g
        c["groups"] = groups
    return c


def predicate(m, flags):
    if not flags:
        return True
    ok = True
    if "value" in flags:
        ok = ok and all(m.values[i] < m.values[i + 1] for i in range(m.n - 1))
    if "name" in flags:
        ok = ok and all(nkey(m.names[i]) < nkey(m.names[i + 1]) for i in range(m.n - 1))
    return ok


def run_case(case):
    if "descent" in case:
        return run_descent(case)
    if "descent_after" in case:
        return run_descent_after(case)
    if "leading_implicit" in case:
        return run_leading_implicit(case)
    out = J.Outcome()
    s2 = arrange(case)
    m = M.RefEnum(s2)
    if not m.in_domain():
        raise J.build.InfraError("C14 arrangement left the domain")
    cfg = with_sorted(case["cfg"], case["flags"], case["sorted_pos"])
    item = E.enum_item_text(s2, cfg)
    want = predicate(m, case["flags"])
    ok, err = J.accepts(item)
    out.label("arrange", case["arrange"])
    out.label("flags", "absent" if case["flags"] is None else "sorted(%s)" % ",".join(case["flags"]))
    out.label("expected", "compiles" if want else "rejected")
    out.label("first_value_negative", m.values[0] < 0)
    out.label("rename_changes_name_order", sorted(range(m.n), key=lambda i: nkey(m.names[i])) != sorted(range(m.n), key=lambda i: nkey(m.idents[i])))
    out.label("has_implicit", any(v.get("disc") is None for v in s2["variants"]))
    if ok != want:
        if want:
            out.violate("a strictly sorted declaration was rejected", flags=case["flags"], item=item[:3000], stderr=J.short_err(err))
        else:
            out.violate("an unsorted declaration was accepted under sorted(..)", flags=case["flags"], item=item[:3000])
    out.nontrivial = m.n >= 3 and bool(case["flags"])
    out.fingerprint = J.fp(item)
    out.sample = {"item": item.split("\n")[:16], "flags": case["flags"], "expected": "compiles" if want else "rejected"}
    return out
