"""Script builders shared by the behavioural properties. Every builder appends
(command, expected-by-the-model) pairs for module k; the expectation never comes from the derive."""
import random

from .. import emit as E
from .. import model as M
from ..emit import opt


def pick_idxs(m, rnd, limit=64):
    """Declaration indexes to probe: all when small, else run ends + random sample."""
    if m.n <= limit:
        return list(range(m.n))
    keep = set()
    for (b, e) in m.runs[:12]:
        keep.add(m.by_value[b])
        keep.add(m.by_value[e])
    keep.add(m.order[0])
    keep.add(m.order[-1])
    while len(keep) < limit:
        keep.add(rnd.randrange(m.n))
    return sorted(keep)


def boundary_values(m, rnd, extra=()):
    """Repr values worth asking try_from about (clipped to the repr type)."""
    lo, hi = M.repr_range(m.repr)
    vs = set()
    for (b, e) in (m.runs if len(m.runs) <= 40 else m.runs[:20] + m.runs[-20:]):
        for x in (b - 1, b, b + 1, e - 1, e, e + 1, (b + e) // 2):
            vs.add(x)
    for i in range(len(m.runs) - 1):
        e0 = m.runs[i][1]
        b1 = m.runs[i + 1][0]
        vs.add((e0 + b1) // 2)
    for x in (lo, lo + 1, hi - 1, hi, 0, 1, -1, m.min - 1, m.max + 1, m.min - 2, m.max + 2,
              127, 128, 255, 256, -128, -129, 32767, 32768, 65535, 65536, 2 ** 31 - 1, 2 ** 31, 2 ** 32 - 1, 2 ** 32,
              2 ** 63 - 1, 2 ** 63, -2 ** 31, -2 ** 31 - 1, -2 ** 63, -2 ** 63 - 1, 2 ** 64 - 1, 2 ** 64):
        vs.add(x)
    if m.n <= 64:
        vs.update(m.sorted_values)
    else:
        for _ in range(48):
            vs.add(m.sorted_values[rnd.randrange(m.n)])
    for _ in range(24):
        vs.add(rnd.randint(lo, hi))
        vs.add(rnd.randint(max(lo, m.min - 300), min(hi, m.max + 300)))
    # every power of two (and its neighbours) between MIN and MAX: bit-flag style membership tests
    for k in range(0, 127):
        pw = 1 << k
        if pw > m.max + 1:
            break
        if pw >= m.min - 1:
            vs.update((pw - 1, pw, pw + 1))
    # regularly spaced enums: positions inside holes that continue the spacing of the neighbours
    sv = m.sorted_values
    diffs = sorted({b - a for a, b in zip(sv, sv[1:]) if b - a > 1})[:3]
    pairs = [(a, b) for a, b in zip(sv, sv[1:]) if b - a > 1]
    for a, b in (pairs if len(pairs) <= 24 else rnd.sample(pairs, 24)):
        for d in diffs + [sv[1] - sv[0] if len(sv) > 1 else 1]:
            for k in (1, 2, 3):
                if a < a + k * d < b:
                    vs.add(a + k * d)
                if a < b - k * d < b:
                    vs.add(b - k * d)
        vs.add(a + (b - a) // 3)
        vs.add(b - (b - a) // 3)
    # aliases of discriminants under truncation to a narrower width (a bound test or cast done in the wrong type)
    picks = [m.min, m.max, 0, -1] + [m.sorted_values[rnd.randrange(m.n)] for _ in range(6)]
    for v in picks:
        for w in (7, 8, 15, 16, 31, 32, 63, 64):
            for k in (1, -1, 2, -2):
                vs.add(v + k * (1 << w))
            vs.add(v ^ (1 << (w - 1)))
    vs.update(extra)
    return sorted(v for v in vs if lo <= v <= hi)


def sc_cast(S, k, m, idxs):
    for i in idxs:
        S.add(k, "cast", [i], str(m.values[i]))


def sc_into(S, k, m, cfg, idxs):
    for i in idxs:
        if E.enabled(cfg, "into"):
            S.add(k, "into", [i], str(m.values[i]))
        if E.enabled(cfg, "Into"):
            S.add(k, "Into", [i], str(m.values[i]))
            S.add(k, "Into_m", [i], str(m.values[i]))


def sc_try_from(S, k, m, cfg, ns, sweep=True):
    small = M.repr_bits(m.repr) <= 16
    if E.enabled(cfg, "try_from"):
        if sweep and small:
            S.add(k, "try_from_sweep", [], E.sweep_expected(m))
        for n in ns:
            S.add(k, "try_from", [n], opt(m.try_from(n)))
    if E.enabled(cfg, "TryFrom"):
        if sweep and small:
            S.add(k, "TryFrom_sweep", [], E.sweep_expected(m))
        for n in ns:
            S.add(k, "TryFrom", [n], opt(m.try_from(n)))
        for n in ns[:8]:
            S.add(k, "TryFrom_m", [n], opt(m.try_from(n)))


STR_ITEMS = ["as_str", "Display", "Debug", "IntoStr"]


def sc_str(S, k, m, cfg, idxs):
    for i in idxs:
        h = M.hexs(m.names[i])
        if E.enabled(cfg, "as_str"):
            S.add(k, "as_str", [i], h)
        if E.enabled(cfg, "Display"):
            S.add(k, "Display", [i], h)
            S.add(k, "Display_ts", [i], h)
        if E.enabled(cfg, "Debug"):
            S.add(k, "Debug", [i], h)
        if E.enabled(cfg, "IntoStr"):
            S.add(k, "IntoStr", [i], h)


def from_str_expect(m, s):
    c = m.from_str_candidates(s)
    if not c:
        return "N"
    if len(c) == 1:
        return "S%d" % m.values[c[0]]
    return {"any_of": ["S%d" % m.values[i] for i in c]}


def sc_from_str(S, k, m, cfg, strings):
    for s in strings:
        exp = from_str_expect(m, s)
        h = M.hexs(s)
        if E.enabled(cfg, "from_str"):
            S.add(k, "from_str", [h], exp)
        if E.enabled(cfg, "FromStr"):
            S.add(k, "FromStr", [h], exp)
            S.add(k, "FromStr_p", [h], exp)


def sc_minmax(S, k, m, cfg):
    if E.enabled(cfg, "MIN"):
        S.add(k, "MIN", [], str(m.min))
    if E.enabled(cfg, "MAX"):
        S.add(k, "MAX", [], str(m.max))


def sc_next(S, k, m, cfg, idxs, walks=True):
    for i in idxs:
        if E.enabled(cfg, "next"):
            S.add(k, "next", [i], opt(m.next(i)))
        if E.enabled(cfg, "next_back"):
            S.add(k, "next_back", [i], opt(m.next_back(i)))
    if walks and m.n <= 2000:
        if E.enabled(cfg, "next"):
            S.add(k, "walk", [m.order[0]], "".join("%d," % v for v in m.sorted_values))
        if E.enabled(cfg, "next_back"):
            S.add(k, "walk_back", [m.order[-1]], "".join("%d," % v for v in reversed(m.sorted_values)))


def sc_iter(S, k, m, cfg, hists, ref=True):
    for ops in hists:
        exp = M.run_iter_model(m.sorted_values, ops, str)
        if E.enabled(cfg, "iter"):
            S.add(k, "iter", ops, exp)
        if ref:
            S.add(k, "ref_iter", ops, exp)


def sc_range(S, k, m, cfg, triples, ref=True):
    """triples: (i, j, ops) with i, j declaration indexes."""
    for (i, j, ops) in triples:
        exp = M.run_iter_model(m.range_values(i, j), ops, str)
        if E.enabled(cfg, "range"):
            S.add(k, "range", [i, j] + list(ops), exp)
        if ref:
            S.add(k, "ref_range", [i, j] + list(ops), exp)


def sc_names(S, k, m, cfg, hists, ref=True):
    for ops in hists:
        exp = M.run_iter_model(m.sorted_names, ops, M.hexs)
        if E.enabled(cfg, "names"):
            S.add(k, "names", ops, exp)
        if ref:
            S.add(k, "ref_names", ops, exp)
    if E.enabled(cfg, "names") and E.enabled(cfg, "iter"):
        S.add(k, "zip", [], "[" + "".join("%d:%s," % (v, M.hexs(nm)) for v, nm in zip(m.sorted_values, m.sorted_names)) + "]")


def near_miss_strings(m, rnd, limit_names=16):
    """Strings that must be rejected unless they happen to be a name: single-edit neighbours,
    case flips, whitespace, prefixes/suffixes, identifiers of renamed variants."""
    names = list(dict.fromkeys(m.names))
    out = set()
    out.add("")
    out.update(m.idents)                    # identifier of a renamed variant must not parse
    pick = names if len(names) <= limit_names else rnd.sample(names, limit_names)
    alphabet = "aA_0 *\"\\{}é"
    for s in pick:
        out.add(s)
        if len(s) > 4096:
            # a padded name (total length on a 2^16 boundary): the name, one shorter, one longer, one substitution
            pos = rnd.randrange(len(s))
            out.update([s[:-1], s + "_", s[:pos] + "~" + s[pos + 1:]])
            continue
        out.add(s.swapcase())
        out.add(s.upper())
        out.add(s.lower())
        out.add(" " + s)
        out.add(s + " ")
        out.add(s + "\n")
        out.add("\t" + s)
        out.add(s + s)
        out.add(s + "\0")
        if len(s) > 0:
            out.add(s[:-1])
            out.add(s[1:])
            pos = rnd.randrange(len(s))
            out.add(s[:pos] + s[pos + 1:])                                   # delete
            out.add(s[:pos] + rnd.choice(alphabet) + s[pos:])                # insert
            out.add(s[:pos] + rnd.choice(alphabet) + s[pos + 1:])            # substitute
            if len(s) > 1:
                p = rnd.randrange(len(s) - 1)
                out.add(s[:p] + s[p + 1] + s[p] + s[p + 2:])                 # transpose
        out.add(s + rnd.choice(alphabet))
        out.add(rnd.choice(alphabet) + s)
    # strings must be valid UTF-8 text without lone surrogates (python str slicing is by code point: ok)
    return sorted(out)


def all_pairs_or_sample(m, rnd, limit=64):
    """Ordered pairs (i, j) of declaration indexes for range()."""
    n = m.n
    if n * n <= limit:
        return [(i, j) for i in range(n) for j in range(n)]
    o = m.order
    pairs = set()
    pairs.add((o[0], o[-1]))
    pairs.add((o[-1], o[0]))
    pairs.add((o[0], o[0]))
    pairs.add((o[-1], o[-1]))
    for _ in range(8):
        p = rnd.randrange(n)
        pairs.add((o[p], o[p]))                                  # single
        if p + 1 < n:
            pairs.add((o[p], o[p + 1]))                          # adjacent
            pairs.add((o[p + 1], o[p]))                          # reversed by 1
        q = rnd.randrange(n)
        if abs(p - q) >= 2:
            pairs.add((o[max(p, q)], o[min(p, q)]))              # reversed by >= 2
            pairs.add((o[min(p, q)], o[max(p, q)]))
    # inside one run / across runs
    for (b, e) in m.runs[:6]:
        pairs.add((m.by_value[b], m.by_value[e]))
        pairs.add((m.by_value[e], m.by_value[b]))
    for i in range(min(len(m.runs) - 1, 6)):
        pairs.add((m.by_value[m.runs[i][1]], m.by_value[m.runs[i + 1][0]]))
        pairs.add((m.by_value[m.runs[i][0]], m.by_value[m.runs[i + 1][1]]))
        pairs.add((m.by_value[m.runs[i + 1][0]], m.by_value[m.runs[i][1]]))
    while len(pairs) < limit:
        pairs.add((rnd.randrange(n), rnd.randrange(n)))
    return sorted(pairs)


def rand_history(rnd, n, max_len=None, ord_ok=False):
    """History from a seeded PRNG (used where thousands of histories per case are wanted)."""
    max_len = max_len if max_len is not None else min(2 * n + 4, 24)
    args = sorted({0, 1, 2, max(0, n // 2), max(0, n - 1), n, n + 1, n + 5})
    from ..strategies import HUGE_NTH
    if rnd.random() < 0.25:
        args = args + [rnd.choice(HUGE_NTH), rnd.choice(HUGE_NTH)]     # usize arguments far beyond any length
    ops = []
    for _ in range(rnd.randint(0, max_len)):
        x = rnd.random()
        if x < 0.3:
            ops.append("n")
        elif x < 0.6:
            ops.append("b")
        elif x < 0.7:
            ops.append("nth:%d" % rnd.choice(args))
        elif x < 0.8:
            ops.append("nthb:%d" % rnd.choice(args))
        elif x < 0.9:
            ops.append("l")
        else:
            ops.append("h")
    f = rnd.choice(M.FINISHERS + M.PARAM_FINISHERS + [None] + (M.ORD_FINISHERS * 2 if ord_ok else []))
    if f in M.PARAM_FINISHERS:
        f = "%s:%d" % (f, rnd.choice(args))
    if f:
        ops.append(f)
    return ops


# ---------------------------------------------------------------------------------------------
# configuration variants of one declaration

def with_feats(base, overrides, drop=()):
    """Copy of config `base` where the features named in `overrides` ({name: params-list}) are
    replaced/added and those in `drop` removed. Single attribute (splitting is C10's subject)."""
    feats = []
    seen = set()
    for f in base["feats"]:
        if f["f"] in drop:
            continue
        if f["f"] in overrides:
            if overrides[f["f"]] is not None:
                feats.append({"f": f["f"], "params": [list(p) for p in overrides[f["f"]]] + [p for p in f["params"] if p[0] in ("name", "vis", "struct_name")]})
            seen.add(f["f"])
        else:
            feats.append(f)
    for name, ps in overrides.items():
        if name not in seen and ps is not None:
            feats.append({"f": name, "params": [list(p) for p in ps]})
    # range requires iter and forbids table_inline
    names = [f["f"] for f in feats]
    if "range" in names:
        it = [f for f in feats if f["f"] == "iter"]
        if not it or ["mode", "table_inline"] in it[0]["params"]:
            feats = [f for f in feats if f["f"] != "range"]
    return {"feats": feats, "groups": [len(feats)] if feats else [], "pos": ["pre"] if feats else []}


def mode_params(mode):
    return [] if mode is None else [["mode", mode]]


def std_labels(out, m):
    for k, v in m.labels().items():
        out.label(k, v)


def full_script(sc, k, m, cfg, rnd, n_hist=4, n_pairs=10, n_strings=24, limit=24, ref=False, sweep=True, value_filter=None, ns_cap=60):
    """Moderate script over every item the configuration enables (used by the cross-configuration
    properties: C02, C09, C10, C16, C18). Lines are a pure function of (m, enabled items, rnd)."""
    idxs = pick_idxs(m, rnd, limit)
    sc_cast(sc, k, m, idxs[:8])
    sc_into(sc, k, m, cfg, idxs)
    ns = boundary_values(m, rnd)
    if value_filter is not None:
        ns = [x for x in ns if value_filter(x)]
    if len(ns) > ns_cap:
        # keep everything close to the enum (hole interiors, boundaries), sample the far-away values
        near = [x for x in ns if m.min - 2 <= x <= m.max + 2]
        if len(near) > ns_cap:
            near = rnd.sample(near, ns_cap)
        far = [x for x in ns if not (m.min - 2 <= x <= m.max + 2)]
        ns = sorted(set(near) | set(rnd.sample(far, min(len(far), max(8, ns_cap // 3)))) | {m.min, m.max})
    sc_try_from(sc, k, m, cfg, ns, sweep=sweep)
    sc_str(sc, k, m, cfg, idxs)
    if E.enabled(cfg, "from_str") or E.enabled(cfg, "FromStr"):
        strings = near_miss_strings(m, rnd, limit_names=4)
        names = list(dict.fromkeys(m.names))
        if len(strings) > n_strings:
            strings = rnd.sample(strings, n_strings)
        strings = sorted(set(strings) | set(names if len(names) <= 12 else rnd.sample(names, 12)))
        sc_from_str(sc, k, m, cfg, strings)
    sc_minmax(sc, k, m, cfg)
    sc_next(sc, k, m, cfg, idxs)
    hists = [rand_history(rnd, m.n) for _ in range(n_hist)] + [["l", "collect"]]
    sc_iter(sc, k, m, cfg, hists, ref=ref)
    if E.enabled(cfg, "range"):
        pairs = all_pairs_or_sample(m, rnd, limit=n_pairs)
        trip = []
        for (i, j) in pairs:
            sub = len(m.range_values(i, j))
            trip.append((i, j, ["l"] + rand_history(rnd, sub, max_len=6)))
        sc_range(sc, k, m, cfg, trip, ref=ref)
    sc_names(sc, k, m, cfg, hists[:3] + [["max"], ["n", "min"]], ref=ref)


def script_for_modules(m, cfgs, rnd_seed, **kw):
    """The same script (same PRNG stream) for several configurations of one declaration.
    Returns an emit.Script whose module k uses cfgs[k]."""
    import random as _r
    sc = E.Script()
    for k, cfg in enumerate(cfgs):
        full_script(sc, k, m, cfg, _r.Random(rnd_seed), **kw)
    return sc


# ---------------------------------------------------------------------------------------------
# model of the auto resolver (steering and labels only - never an oracle; DESIGN Appendix C)

def predict_modes(m, cfg):
    en = lambda f: E.enabled(cfg, f)
    md = lambda f: E.param(E.feat(cfg, f), "mode") or "auto"
    as_str_on = en("as_str") or en("Debug") or en("Display") or en("IntoStr")
    as_mode = md("as_str") if en("as_str") else "auto"
    table_name = en("names") or (as_str_on and as_mode == "table") or (en("from_str") and md("from_str") == "table") or \
        (en("FromStr") and md("FromStr") == "table")
    table_enum = (en("iter") and md("iter") == "table") or ((not m.gapless) and ((en("from_str") and md("from_str") == "table") or
                                                                               (en("FromStr") and md("FromStr") == "table")))
    autos = sum([as_str_on and as_mode == "auto", en("FromStr") and md("FromStr") == "auto", en("from_str") and md("from_str") == "auto"])
    if autos > 1:
        table_name = True
    res = {}
    if as_str_on:
        res["as_str"] = ("table" if table_name else "match") if as_mode == "auto" else as_mode
    for f in ("from_str", "FromStr"):
        if en(f):
            res[f] = ("table" if table_name else "match") if md(f) == "auto" else md(f)
    if en("iter"):
        if md("iter") != "auto":
            res["iter"] = md("iter")
        elif m.gapless:
            res["iter"] = "range"
        elif table_enum:
            res["iter"] = "table"
        elif m.n * M.guessed_size(m.repr) <= 8 and not en("range"):
            res["iter"] = "table_inline"
        else:
            res["iter"] = "next_and_back"
    return res


def differential(out, sc, obs, what="configurations"):
    """Group observed lines by (command, args) across modules; every group must be a single value."""
    if obs is None:
        return 0
    groups = {}
    for line, o in zip(sc.lines, obs):
        k, rest = line.split(" ", 1)
        groups.setdefault(rest, []).append((int(k), o))
    compared = 0
    for rest, lst in groups.items():
        if len(lst) < 2:
            continue
        compared += 1
        vals = {o for _k, o in lst}
        if len(vals) > 1:
            out.violate("the same call gives different results under different %s" % what, call=rest,
                        results=[{"module": k, "observed": o[:300]} for k, o in lst])
    return compared


INDEX_ARGS = {"cast": 1, "into": 1, "Into": 1, "Into_m": 1, "as_str": 1, "Display": 1, "Display_ts": 1, "Debug": 1,
              "IntoStr": 1, "next": 1, "next_back": 1, "walk": 1, "walk_back": 1, "range": 2, "ref_range": 2}


def translate_script(sc, k_from, k_to, index_map):
    """Copy module k_from's lines to module k_to, mapping declaration indexes (same variants, other order)."""
    n = len(sc.lines)
    for i in range(n):
        parts = sc.lines[i].split(" ")
        if int(parts[0]) != k_from:
            continue
        cmd = parts[1]
        args = parts[2:]
        for j in range(INDEX_ARGS.get(cmd, 0)):
            args[j] = str(index_map[int(args[j])])
        sc.lines.append(" ".join([str(k_to), cmd] + args))
        sc.expected.append(sc.expected[i])
        sc.tags.append(sc.tags[i])


# ---------------------------------------------------------------------------------------------
# small-scope exhaustive enumeration (shared by C10, C16, C19)
import itertools as _it

from .. import build as _build
from .. import judge as _J

SCOPE_SHAPES = [
    ("gapless_from_0", "u8", [0, 1, 2]),
    ("gapless_negative_start", "i8", [-2, -1, 0, 1]),
    ("holes_mixed_sign", "i16", [-5, -4, 3, 9, 10]),
    ("holes_at_type_limits", "i8", [-128, -127, 5, 127]),
    ("single_variant", "u32", [7]),
    ("gapless_at_type_max", "u8", [253, 254, 255]),
    ("holes_wide_repr", "u64", [0, 1, 2 ** 40]),
    ("holes_9_values_usize", "usize", [0, 1, 2, 3, 4, 5, 6, 7, 9]),
    ("sparse_bit_flags", "u8", [1, 4, 16, 64]),
    ("sparse_lattice_signed", "i32", [-2000, -1000, 1000, 4000]),
]
SCOPE_SHAPES_EXTRA = [
    ("holes_18_runs", "i16", [-40, -39] + [3 * i for i in range(17)]),
    ("gapless_70_u64", "u64", list(range(5, 75))),
    ("holes_40_i128_negative_start", "i128", list(range(-20, 0)) + list(range(5, 25))),
    ("gapless_300_u16", "u16", list(range(300))),
    ("full_u8", "u8", list(range(256))),
    ("full_i8", "i8", list(range(-128, 128))),
]


def scope_spec(r, vals):
    return {"repr": r, "vis": "pub", "ident": "E", "enum_attrs": [],
            "variants": [{"ident": "V%d" % i, "disc": str(v)} for i, v in enumerate(vals)]}


def scope_configs(max_size, gapless):
    """Every feature subset of size <= max_size (range pulls in iter) x every mode of the mode features present."""
    from .. import strategies as _S
    str_modes = [None, "match", "table"]
    out = []
    for k in range(1, max_size + 1):
        for sub in _it.combinations(E.ALL_FEATURES, k):
            fs = list(sub)
            if "range" in fs and "iter" not in fs:
                fs.append("iter")
            doms = []
            for f in fs:
                if f == "iter":
                    md = [None, "next_and_back", "table"] + (["range"] if gapless else []) + ([] if "range" in fs else ["table_inline"])
                    doms.append(md)
                elif f in E.MODE_FEATURES:
                    doms.append(str_modes)
                else:
                    doms.append([None])
            for combo in _it.product(*doms):
                out.append(_S.simple_config(fs, {f: m_ for f, m_ in zip(fs, combo)}))
    return out


def batch_src(items, crate_attrs="", module_prefix="", module_suffix=""):
    parts = [crate_attrs + E.HEADER]
    for i, item in items:
        parts.append("pub mod m%d {\n%s    use ::enum_tools::EnumTools;\n%s\n%s}" % (i, module_prefix, item, module_suffix))
    return "\n".join(parts) + "\n"


def failing_items(items, **kw):
    """[(index, error)] of items that do not compile (batched check-only compile, failing batches bisected)."""
    if not items:
        return []
    c = _build.rustc(batch_src(items, **kw), mode="check", crate_name="scope")
    if c.ok:
        return []
    if len(items) == 1:
        return [(items[0][0], _J.short_err(c.stderr, 700))]
    mid = len(items) // 2
    return failing_items(items[:mid], **kw) + failing_items(items[mid:], **kw)


RUN_COUNTS = [15, 16, 17, 31, 32, 33, 63, 64, 65, 127, 128, 129, 133, 140, 200, 255, 256, 257, 300]


def run_count_specs(counts=None):
    """Enums with exactly k runs (alternating single values and pairs) for k around every power of two up to 300:
    code that switches strategy (bisection, chunking, narrower index types) above some number of runs."""
    out = []
    for k in (counts or RUN_COUNTS):
        vals = []
        cur = -7
        for i in range(k):
            vals.append(cur)
            if i % 2:
                cur += 1
                vals.append(cur)
            cur += 3
        r = "i16" if k < 200 else "i32"
        out.append(scope_spec(r, vals))
    return out


RUN_LENGTHS_A = [1, 2, 63, 64, 65, 127, 128, 129, 255, 256, 257]
RUN_LENGTHS_B = [1, 63, 64, 65, 128]


def run_length_specs(pairs=None):
    """Two-run enums whose run lengths sit on / next to powers of two (code that packs a run into a word-sized
    mask or a narrow length field); a third single value after a wide hole keeps the enum from being a plain pair."""
    out = []
    for a in RUN_LENGTHS_A:
        for b in RUN_LENGTHS_B:
            if pairs is not None and (a, b) not in pairs:
                continue
            for r, start in (("i16", -70), ("u32", 3)):
                vals = list(range(start, start + a)) + list(range(start + a + 2, start + a + 2 + b)) + [start + a + b + 1000]
                out.append(scope_spec(r, vals))
    return out


NAME_TABLE_TOTALS = [(255, 5), (256, 5), (257, 5), (256, 40), (300, 40), (400, 100), (65535, 300), (65536, 300), (65537, 300), (66000, 300), (70000, 260)]


def name_table_specs(totals=None):
    """Enums whose names' total length sits on / next to 2^8 and 2^16 bytes (packed name tables with narrow
    offsets); the variant whose name sorts last is declared in the middle."""
    out = []
    for total, n in (totals or NAME_TABLE_TOTALS):
        per = total // n
        vs = []
        for i in range(n):
            nm = ("%03d" % i) + "abcdefghij"[i % 10] * (per - 3)
            if i == n // 2:
                nm = "zz" + nm[2:] + "z" * (total - per * n)
            vs.append({"ident": "V%d" % i, "disc": str(i * 2 if i > n // 2 else i), "rename": nm, "rename_raw": False})
        # (400, 100) and (66000, 300) divide evenly: all names equally long
        out.append({"repr": "u8" if n <= 100 else "u16", "vis": "pub", "ident": "E", "enum_attrs": [], "variants": vs})
    return out


def tied_run_specs():
    """Several runs tied for the greatest length, a shorter run first (code that singles out "the" longest run)."""
    out = []
    for lens in ([4, 16, 16], [1, 16, 16, 16], [3, 17, 5, 17], [16, 16], [2, 64, 64], [5, 3, 5, 3, 5],
                 # first == last == average with uneven middle runs
                 [2, 1, 3, 2], [3, 2, 4, 3], [2, 2, 1, 3, 2], [2, 3, 1, 2, 2]):
        for r, base in (("i16", -20), ("u8", 0)):
            vals, cur = [], base
            for ln in lens:
                vals.extend(range(cur, cur + ln))
                cur += ln + 7
            if vals[-1] <= M.repr_domain(r)[1]:
                out.append(scope_spec(r, vals))
    return out


SPANS = [127, 128, 129, 255, 256, 257, 511, 512, 65535, 65536, 65537]


def span_specs(spans=None):
    """Enums with holes and seven runs whose MAX - MIN is exactly on / next to a power of two, and enums whose last
    run crosses MIN + 2^8 / MIN + 2^16 while the first run holds the values 2^k below its tail (position tables and
    bit sets keyed by the low bits of the discriminant)."""
    out = []
    for T in (spans or SPANS):
        for r, base in (("i16", -40), ("u16", 7), ("i32", -1000), ("u64", 5)):
            lo, hi = M.repr_domain(r)
            if base + T > hi:
                continue
            vals = sorted({base, base + 1, base + 3, base + T // 3, base + T // 2, base + T // 2 + 1, base + T - 4, base + T - 2, base + T})
            out.append(scope_spec(r, vals))
    for B in (256, 65536):
        for r, base in (("i16", -100), ("i32", -7), ("u32", 0), ("i64", -300)):
            lo, hi = M.repr_domain(r)
            if base + B + 4 > hi:
                continue
            vals = sorted(set(range(base, base + 6)) | {base + B // 3, base + B // 2} | set(range(base + B - 6, base + B + 5)))
            out.append(scope_spec(r, vals))
    return out


def block_specs():
    """Enums made of k equally spaced blocks of L values where the last (or first) block is longer or shorter than
    the others (arithmetic fast paths for "regular" enums that verify all blocks but one)."""
    out = []
    for k in (3, 5):
        for L in (1, 3):
            for which in (-1, 0):
                for delta in (-1, 1, 3):
                    if L + delta < 1:
                        continue
                    stride = L + 4
                    for r, base in (("i16", 100), ("u8", 0), ("i8", -60)):
                        vals = []
                        for b in range(k):
                            ln = L + (delta if (b == k - 1 if which == -1 else b == 0) else 0)
                            vals.extend(range(base + b * stride, base + b * stride + ln))
                        out.append(scope_spec(r, sorted(set(vals))))
    return out


def zero_first_specs():
    """Declarations that start with implicit variants (0, 1, ...) and continue below zero with an explicit negative
    discriminant: gapless and with holes, every signed repr."""
    out = []
    for r in ("i8", "i16", "i32", "i64", "isize", "i128"):
        for decl in ([None, None, None, "-2", None], [None, "-3", None, None, "1"], [None, None, "-5", None, "7"], [None, "-1"]):
            out.append({"repr": r, "vis": "pub", "ident": "E", "enum_attrs": [],
                        "variants": [{"ident": "V%d" % i, "disc": d} for i, d in enumerate(decl)]})
    return out


STRUCTURED_SETS = [[1, 2, 4, 8], [1, 2, 4, 8, 16, 32, 64], [0, 1, 2, 4, 8], [1, 2, 4, 16, 32], [1, 2, 8, 16], [3, 6, 9, 12, 15], [0, 10, 20, 30],
                   [0, 10, 19, 30], [0, 10, 21, 30, 40], [-3, -2, -1, 1, 2, 3], [-3, -2, -1, 1, 3], [-4, -3, -1, 1, 3, 4], [-100, 0, 1, 100],
                   [-120, -40, 40, 120], [-128, -1, 0, 127], [0, 127, 128, 255], [2, 3, 5, 7, 11, 13], [10, 11, 20, 21, 30, 31, 32],
                   [5, 6, 7, 100, 101, 102, 120], [0, 64], [0, 63, 64, 65], [1, 128], [0, 1, 2, 3, 4]]


def structured_specs(reprs=("i8", "u8", "i16", "i64", "u64")):
    """Value sets with a pattern a fast path could key on (flags, flags with an unused bit, arithmetic and almost
    arithmetic progressions, mirrored sets, blocks, pairs a power of two apart), under several reprs."""
    out = []
    for vals in STRUCTURED_SETS:
        for r in reprs:
            lo, hi = M.repr_domain(r)
            if lo <= vals[0] and vals[-1] <= hi:
                out.append(scope_spec(r, vals))
    return out
