"""C02 - no undefined behaviour: every value produced is a declared variant."""
import random
import re

from hypothesis import HealthCheck, Phase, Verbosity, given, seed, settings
from hypothesis import strategies as st

from .. import build
from .. import emit as E
from .. import judge as J
from .. import miri
from .. import model as M
from .. import strategies as S
from . import common as C

ID = "C02"
TIERS = {"quick": 800, "thorough": 14000}
MIRI_CASES = {"quick": 40, "thorough": 1440}
MIRI_BATCH = 96
MIRI_LINES = 56         # script lines per case under Miri (about 55 ms each)
RULE = ("case = generated enum x generated configuration with most features on (every mode, custom names) x a heavy "
        "script over every derived item: exhaustive try_from sweeps of 8/16-bit reprs, boundary and PRNG arguments, every "
        "string class for the parsers, next/next_back of every variant and full walks, iterator histories, every ordered "
        "variant pair for range() on small enums. Three detectors: (1) validity oracle - every enum value returned or "
        "yielded anywhere is printed as `v as repr` and must be a declared discriminant; (2) rustc's debug UB checks in "
        "the native run (invalid-enum transmute panics, unwrap_unchecked(None) aborts) or any signal; (3) Miri on a "
        "generated batch (40 cases quick / 1440 thorough, 56 sampled script lines each; the precise detector and the only one for assume_init). "
        "Ordinary panics are not C02. non-trivial = the case executes at least one unsafe site on a with-holes enum or at "
        "a type limit; executions per unsafe-site class are reported; distinct by (declaration, configuration)")
ASSUMPTIONS = ["UB on inputs that were not generated stays invisible; under Miri the sweeps are bounded to 8-bit reprs",
               "unsafe-site execution counts use the resolver model to predict which mode a configuration runs"]

PROFILE = S.profile(renames=0.3, dups=0.05, attrs=0.05, sizes=[("small", 80), ("medium", 10), ("large", 7), ("full8", 3)],
                    anchors=["min", "max", "zero", "neg", "rand", "narrow_max", "narrow_min"])
MIRI_PROFILE = S.profile(renames=0.3, dups=0.05, attrs=0.0, sizes=[("small", 100)], cfg_off=0.0, pad_names=0.0,
                         anchors=["min", "max", "zero", "neg", "rand"], shapes=["gapless", "holes", "holes", "many"])


@st.composite
def cases(draw, tier="quick"):
    spec = draw(S.enum_specs(PROFILE))
    cfg = draw(S.configs(spec, p_on=[0.3, 0.75, 0.75, 0.95], split=False, p_sorted=0.15))
    return {"spec": spec, "cfg": cfg, "seed": draw(st.integers(0, 2 ** 31))}


@st.composite
def miri_cases(draw):
    spec = draw(S.enum_specs(MIRI_PROFILE))
    if len(spec["variants"]) > 12:
        spec["variants"] = spec["variants"][:12] if all(v.get("disc") is not None for v in spec["variants"][:12]) else spec["variants"]
    cfg = draw(S.configs(spec, p_on=0.8, split=False, params=False))
    return {"spec": spec, "cfg": cfg}


def fixed_cases(tier):
    out = [{"limits_matrix": r} for r in M.REPRS]      # deterministic: enums sitting on every integer type's limits
    # run-length and run-count matrices with every unsafe-site feature on, in the table modes and in the defaults
    allf = ["try_from", "TryFrom", "from_str", "FromStr", "MIN", "MAX", "next", "next_back", "iter", "range", "as_str", "names"]
    specs = C.run_length_specs({(1, 64), (64, 64), (65, 64), (63, 65), (128, 128), (129, 63), (256, 63), (257, 65)}) + C.run_count_specs([64, 65, 128, 129, 256, 257])
    for spec in C.zero_first_specs():
        out.append({"spec": spec, "cfg": S.simple_config(allf, {"iter": "table", "as_str": "table", "from_str": "table", "FromStr": "table"}), "seed": 14})
    for spec in C.structured_specs(("i8", "u8", "i64")):
        out.append({"spec": spec, "cfg": S.simple_config(allf), "seed": 15})
    for spec in C.block_specs():
        out.append({"spec": spec, "cfg": S.simple_config(["try_from", "TryFrom", "MIN", "MAX", "next", "next_back", "iter", "range"]), "seed": 13})
    for spec in specs:
        out.append({"spec": spec, "cfg": S.simple_config(allf), "seed": 11})
        out.append({"spec": spec, "cfg": S.simple_config(allf, {"iter": "table", "as_str": "table", "from_str": "table", "FromStr": "table"}), "seed": 12})
    if not miri.available():
        return out
    n = MIRI_CASES[tier]
    for b in range(0, n, MIRI_BATCH):
        out.append({"miri_batch": min(MIRI_BATCH, n - b), "batch_seed": 1000 + b})
    return out


ENUM_CMDS = {"try_from", "TryFrom", "TryFrom_m", "try_from_sweep", "TryFrom_sweep", "from_str", "FromStr", "FromStr_p",
             "MIN", "MAX", "next", "next_back", "walk", "walk_back", "iter", "range", "zip"}
INT = re.compile(r"-?\d+")


def yielded_values(cmd, text):
    """All enum values (as repr integers) that appear in one output line of an enum-yielding command."""
    vals = []
    if text.startswith("PANIC"):
        return vals
    if cmd in ("try_from_sweep", "TryFrom_sweep"):
        for part in text.split(","):
            if ">" in part:
                vals.append(int(part.split(">")[1]))
        return vals
    if cmd in ("walk", "walk_back"):
        return [int(x) for x in text.split(",") if x and x != "LIMIT"]
    if cmd in ("MIN", "MAX"):
        return [int(text)]
    if cmd == "zip":
        return [int(x.split(":")[0]) for x in text.strip("[]").split(",") if x]
    for tok in text.split(" "):
        if not tok or tok[0] in "LHCN":
            continue
        if tok[0] == "S":
            vals.append(int(tok[1:]))
        elif tok[0] == "[":
            vals.extend(int(x) for x in tok.strip("[]").split(",") if x)
        elif tok[0] in "FREV":
            vals.extend(int(x) for x in tok[1:].split(";") if x)
    return vals


def heavy_script(sc, k, m, cfg, rnd, light=False):
    if light:
        C.full_script(sc, k, m, cfg, rnd, n_hist=2, n_pairs=6, n_strings=6, limit=8, sweep=(M.repr_bits(m.repr) == 8))
    else:
        C.full_script(sc, k, m, cfg, rnd, n_hist=8, n_pairs=24, n_strings=24, limit=64, ns_cap=240)
    if E.enabled(cfg, "range") and m.n <= (4 if light else 8):
        trip = [(i, j, ["l", "n", "b", "collect"]) for i in range(m.n) for j in range(m.n)]
        C.sc_range(sc, k, m, cfg, trip, ref=False)


def site_counts(out, m, cfg, sc, obs):
    pred = C.predict_modes(m, cfg)
    holes = not m.gapless
    shape = "holes" if holes else "gapless"
    for line, o in zip(sc.lines, obs or []):
        cmd = line.split(" ")[1]
        if cmd in ("try_from", "TryFrom", "TryFrom_m") and o.startswith("S"):
            out.count("site_transmute_try_from_%s" % shape)
        elif cmd in ("try_from_sweep", "TryFrom_sweep"):
            out.count("site_transmute_try_from_%s" % shape, m.n)
        elif cmd in ("next", "next_back"):
            if o.startswith("S"):
                out.count("site_transmute_%s_%s" % (cmd, shape))
            if holes:
                out.count("site_unwrap_unchecked_%s_holes" % cmd)
        elif cmd in ("from_str", "FromStr", "FromStr_p") and o.startswith("S") and not holes and pred.get("FromStr" if cmd != "from_str" else "from_str") == "table":
            out.count("site_transmute_parse_table_gapless")
        elif cmd == "as_str" and holes and pred.get("as_str") == "table":
            out.count("site_unwrap_unchecked_as_str_table_holes")
        elif cmd == "iter" and pred.get("iter") == "range":
            out.count("site_transmute_iter_range")
        elif cmd == "range":
            if holes:
                out.count("site_assume_init_range_%s" % pred.get("iter"), 2)
            elif pred.get("iter") == "range":
                out.count("site_transmute_range_range_mode")


def judge_lines(out, m, sc, obs_by_index, where):
    vs = set(m.values)
    for i, line in enumerate(sc.lines):
        if i not in obs_by_index:
            continue
        o = obs_by_index[i]
        cmd = line.split(" ")[1]
        if o.startswith("PANIC "):
            msg = M.unhexs(o[6:])
            if J.is_ub_text(msg):
                out.violate("undefined behaviour detected (%s)" % where, line=line, panic=msg, ub=True)
            continue
        if cmd in ENUM_CMDS:
            try:
                got = yielded_values(cmd, o)
            except ValueError:
                raise build.InfraError("cannot parse transcript line %r -> %r" % (line, o))
            bad = [v for v in got if v not in vs]
            if bad:
                out.violate("a derived item produced a value that is not a declared variant (%s)" % where, line=line,
                            invalid_values=bad[:8], observed=o[:300], ub=True)


def run_miri_batch(case):
    out = J.Outcome()
    collected = []

    def body(c):
        collected.append(c)
    t = given(miri_cases())(body)
    t = seed(case["batch_seed"])(t)
    t = settings(max_examples=case["miri_batch"], database=None, deadline=None, phases=[Phase.generate],
                 suppress_health_check=list(HealthCheck), verbosity=Verbosity.quiet)(t)
    t()
    subs = case.get("miri_cases") or collected
    return run_miri(out, subs)


def run_miri(out, subs):
    items = []
    models = []
    for k, c in enumerate(subs):
        m = M.RefEnum(c["spec"])
        models.append(m)
        one = E.Script()
        heavy_script(one, 0, m, c["cfg"], J.case_rng(c), light=True)
        keep = list(range(len(one.lines)))
        if len(keep) > MIRI_LINES:
            keep = sorted(J.case_rng(c).sample(keep, MIRI_LINES))
        sc = E.Script()
        for i in keep:
            sc.lines.append(one.lines[i]); sc.expected.append(one.expected[i]); sc.tags.append(one.tags[i])
        items.append(([(c["spec"], c["cfg"], {"kind": "plain"})], sc))
    results = miri.run_cases(items)
    lines_total = executed = 0
    for k, (m, (modules, sc), (outputs, report)) in enumerate(zip(models, items, results)):
        lines_total += len(sc.lines)
        executed += len(outputs)
        n0 = len(out.violations)
        if report is not None:
            li = report["line_index"]
            out.violate("Miri reports undefined behaviour", line=sc.lines[li] if li is not None else None,
                        report=report["report"][:1500], ub=True)
        judge_lines(out, m, sc, outputs, "under Miri")
        # the Miri run is also a full behavioural run: compare with the model (value mismatches here would be
        # violations of the behavioural properties; in C02 only invalid values / UB count)
        for v in out.violations[n0:]:
            v["replay_case"] = {"miri_cases": [subs[k]]}
        site_counts(out, m, subs[k]["cfg"], sc, [outputs.get(i, "") for i in range(len(sc.lines))])
    out.sub = {("miri_" + k if k.startswith("site_") else k): v for k, v in out.sub.items()}
    out.count("miri_cases", len(subs))
    out.count("miri_script_lines", lines_total)
    out.count("miri_lines_executed", executed)
    out.nontrivial = True
    out.fingerprint = J.fp("miri", [J.fp(c) for c in subs])
    out.sample = {"miri_batch_of": len(subs), "first_case": {"spec": J.abridge_spec(subs[0]["spec"]), "config": J.cfg_text(subs[0]["cfg"])},
                  "script_head": items[0][1].lines[:5]}
    return out


def run_limits(case):
    from . import C01
    out = J.Outcome()
    modules, models, cfg = C01.limits_modules(case["limits_matrix"])
    sc = C01.limits_script(case, models, cfg)
    obs = J.run_script(out, modules, sc, ub_only=True)
    if obs is not None:
        starts = {}
        for i, l in enumerate(sc.lines):
            starts.setdefault(int(l.split(" ")[0]), []).append(i)
        for k, m in enumerate(models):
            sub = E.Script()
            idx = starts.get(k, [])
            sub.lines = [sc.lines[i] for i in idx]
            judge_lines(out, m, sub, {j: obs[i] for j, i in enumerate(idx) if i < len(obs)}, "native debug build, limits matrix")
    out.count("limits_matrix_enums", len(modules))
    out.nontrivial = True
    out.fingerprint = J.fp("limits_matrix", case["limits_matrix"])
    out.sample = {"limits_matrix": case["limits_matrix"], "enums": len(modules)}
    return out


def run_case(case):
    if "limits_matrix" in case:
        return run_limits(case)
    if "miri_batch" in case:
        return run_miri_batch(case)
    if "miri_cases" in case:
        return run_miri(J.Outcome(), case["miri_cases"])
    out = J.Outcome()
    spec, cfg = case["spec"], case["cfg"]
    m = M.RefEnum(spec)
    sc = E.Script()
    heavy_script(sc, 0, m, cfg, J.case_rng(case))
    obs = J.run_script(out, [(spec, cfg, {"kind": "plain"})], sc, ub_only=True)
    if obs is not None:
        judge_lines(out, m, sc, dict(enumerate(obs)), "native debug build")
        site_counts(out, m, cfg, sc, obs)
    C.std_labels(out, m)
    if E.enabled(cfg, "MIN") or E.enabled(cfg, "MAX"):
        out.excluded["KF2"] = 1          # variant identifiers MIN / MAX are kept out of the pool while KF2 is listed
    lab = m.labels()
    unsafe_exec = any(k.startswith("site_") for k in out.sub)
    out.nontrivial = unsafe_exec and ((not m.gapless) or lab["touch_type_min"] or lab["touch_type_max"])
    out.fingerprint = J.fp(m.repr, m.values[:64], m.n, J.cfg_text(cfg))
    out.sample = {"spec": J.abridge_spec(spec), "config": J.cfg_text(cfg), "script_lines": len(sc.lines), "script_head": sc.lines[:4]}
    return out
