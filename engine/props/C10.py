"""C10 - every documented combination of features, modes and parameters compiles (and then behaves)."""
import copy
import itertools
import json
import os

from hypothesis import strategies as st

from .. import build
from .. import emit as E
from .. import judge as J
from .. import model as M
from .. import strategies as S
from . import common as C

ID = "C10"
TIERS = {"quick": 960, "thorough": 16000}
RULE = ("case = generated small/medium enum (gapless or with holes, all reprs) x uniformly random subset of the 17 "
        "user features (+ sorted when the declaration happens to be sorted) x every documented mode value of "
        "as_str/from_str/FromStr/iter x random name / vis / struct_name parameters x a random split of the features "
        "over 1-4 attributes placed before/after #[repr]; only Clone and Copy are derived by the user side. Each case "
        "is compiled twice in one probe (as drawn, and merged into a single attribute - the splitting metamorphic "
        "relation) and every enabled item is then run against the model (C01-C08 scripts). non-trivial = configuration "
        "(feature set with modes and parameters) not among the 29 of the pinned suite; distinct by (features, modes, "
        "parameters, attribute split, shape, repr). In addition a small-scope enumeration compiles EVERY feature subset "
        "of size <= 2 (quick) / <= 3 (thorough) x every mode of the mode features present on 8 fixed enum shapes "
        "(batched check-only compiles, failing batches bisected) - conjunction defects that need a feature to be on "
        "while its usual companions are off. 2-way coverage of (feature on/off or mode) x (feature on/off or "
        "mode) x shape is measured and reported")
KF_ITER_MATCH = "KF1"

PROFILE = S.profile(renames=0.3, dups=0.05, attrs=0.2, sizes=[("small", 90), ("medium", 10)])

SUITE = {  # feature sets (with modes) the pinned suite derives, transcribed from /repo/tests/*.rs
    "Debug", "Display", "FromStr(match)", "FromStr(table)", "Into", "IntoStr", "MAX,next_back", "MAX,MIN",
    "MIN,next", "TryFrom", "as_str(match)", "as_str(table)", "from_str(match)", "from_str(table)", "into",
    "iter(next_and_back)", "iter(next_and_back),range", "iter(table)", "iter(table),range", "iter(table_inline)",
    "names", "try_from", "iter(range),range", "iter(range)",
}


def known_listed(kid):
    p = os.path.join(build.VERIF, "known_findings.json")
    try:
        return any(k.get("id") == kid for k in json.load(open(p)).get("findings", []))
    except Exception:
        return False


@st.composite
def cases(draw, tier="quick"):
    spec = draw(S.enum_specs(PROFILE))
    include_match = not known_listed(KF_ITER_MATCH)
    cfg = draw(S.configs(spec, p_on=[0.15, 0.35, 0.5, 0.5, 0.8], iter_match=include_match))
    m = M.RefEnum(spec)
    srt = None
    if m.values == sorted(m.values) and S.chance(draw, 0.3):
        srt = draw(st.sampled_from([[], ["value"]]))
    return {"spec": spec, "cfg": cfg, "sorted": srt, "match_excluded": not include_match,
            "seed": draw(st.integers(0, 2 ** 31))}


SCOPE_SHAPES = C.SCOPE_SHAPES
scope_configs = C.scope_configs


def fixed_cases(tier):
    # the all-features configuration on every repr, gapless and with holes (cheap, deterministic)
    out = [{"small_scope": 3 if tier == "thorough" else 2}]
    # regressions of repaired defects D6 (0edb128: variants named Error / Err) and D3 (98adeee: struct_name)
    names = ["Error", "Err", "Ok", "Some", "None", "Item", "Output"]
    for r, vals in (("u8", [0, 1, 2, 3, 4, 5, 6]), ("i16", [-3, -2, 5, 6, 7, 100, 101])):
        spec = {"repr": r, "vis": "pub", "ident": "E", "enum_attrs": [],
                "variants": [{"ident": nm, "disc": str(v)} for nm, v in zip(names, vals)]}
        cfg = S.simple_config(E.ALL_FEATURES)
        for f in cfg["feats"]:
            if f["f"] in ("iter", "names"):
                f["params"].append(["struct_name", "My%sStruct" % f["f"].capitalize()])
        out.append({"spec": spec, "cfg": cfg, "sorted": None, "match_excluded": True, "seed": 8})
    # size matrix on the 8-bit reprs: enums that half-fill, nearly fill and fill the type, gapless and with holes,
    # all features on (indexes, offsets and lengths at the width limit)
    for r in ("u8", "i8"):
        lo, hi = M.repr_domain(r)
        shapes = [list(range(lo, lo + n)) for n in (128, 129, 255, 256)]
        shapes += [list(range(lo, lo + 100)) + list(range(lo + 101, lo + 130)),                 # 129 values, run 2 starts at position 100
                   list(range(lo, lo + 128)) + list(range(lo + 129, hi + 1)),                   # 255 values, run 2 starts at position 128
                   [lo] + list(range(lo + 2, hi + 1)),                                          # 255 values, hole right after the type MIN
                   list(range(lo, hi - 1)) + [hi]]                                              # 255 values, last run is the type MAX alone
        for vals in shapes:
            spec = {"repr": r, "vis": "pub", "ident": "E", "enum_attrs": [],
                    "variants": [{"ident": "V%d" % i, "disc": str(v)} for i, v in enumerate(vals)]}
            cfg = S.simple_config(E.ALL_FEATURES, {"as_str": "table", "iter": "table"} if len(vals) % 2 else {})
            out.append({"spec": spec, "cfg": cfg, "sorted": ["value"], "match_excluded": True, "seed": 9})
    # regression of repaired defect D7 (a33ee47): as_str named like a prelude trait method, with Debug / Display / IntoStr
    for nm in ("to_owned", "to_string", "clone", "fmt", "as_ref", "eq"):
        spec = {"repr": "i16", "vis": "pub", "ident": "E", "enum_attrs": [],
                "variants": [{"ident": "V%d" % i, "disc": str(v)} for i, v in enumerate([-3, -2, 5, 6])]}
        cfg = S.simple_config(["as_str", "Debug", "Display", "IntoStr", "iter", "next", "next_back"], {"iter": "next_and_back"},
                              {"as_str": nm, "next": "clone" if nm != "clone" else "to_owned", "next_back": "default"})
        out.append({"spec": spec, "cfg": cfg, "sorted": None, "match_excluded": True, "seed": 10})
    for r in M.REPRS:
        lo, hi = M.repr_domain(r)
        for shape in ("gapless", "holes"):
            vals = [lo, lo + 1, lo + 2] if shape == "gapless" else [lo, lo + 2, hi - 1, hi]
            spec = {"repr": r, "vis": "pub", "ident": "E", "enum_attrs": [],
                    "variants": [{"ident": "V%d" % i, "disc": str(v)} for i, v in enumerate(vals)]}
            out.append({"spec": spec, "cfg": S.simple_config(E.ALL_FEATURES), "sorted": ["value"],
                        "match_excluded": True, "seed": 7})
    return out


def cfg_key(cfg):
    parts = []
    for f in sorted(cfg["feats"], key=lambda f: f["f"]):
        md = E.param(f, "mode")
        extra = [k for k, _v in f.get("params", []) if k != "mode"]
        parts.append(f["f"] + ("(%s)" % md if md else "") + ("+p" if extra else ""))
    return ",".join(parts)


def merged(cfg):
    c = copy.deepcopy(cfg)
    c["groups"] = [len(c["feats"])] if c["feats"] else []
    c["pos"] = ["pre"] if c["feats"] else []
    return c


def states(cfg):
    """per-feature state strings for pairwise coverage"""
    st_ = {}
    for f in E.ALL_FEATURES:
        ft = E.feat(cfg, f)
        if ft is None:
            st_[f] = "off"
        elif f in E.MODE_FEATURES:
            st_[f] = E.param(ft, "mode") or "default"
        else:
            st_[f] = "on"
    return st_


def _total_pairs():
    dom = {}
    for f in E.ALL_FEATURES:
        if f in E.MODE_FEATURES:
            dom[f] = ["off", "default"] + E.MODE_FEATURES[f]
        else:
            dom[f] = ["off", "on"]
    tot = 0
    for a, b in itertools.combinations(E.ALL_FEATURES, 2):
        tot += len(dom[a]) * len(dom[b])
    return tot * 2


COVER_TOTALS = {"pairs_x_shape": _total_pairs()}   # upper bound: includes the few illegal pairs (range x iter off / table_inline, range mode x holes)


_failing = C.failing_items


def run_small_scope(case):
    import concurrent.futures
    out = J.Outcome()
    total = 0
    jobs = []
    for name, r, vals in SCOPE_SHAPES:
        spec = {"repr": r, "vis": "pub", "ident": "E", "enum_attrs": [],
                "variants": [{"ident": "V%d" % i, "disc": str(v)} for i, v in enumerate(vals)]}
        m = M.RefEnum(spec)
        cfgs = scope_configs(case["small_scope"], m.gapless)
        items = [(i, E.enum_item_text(spec, c)) for i, c in enumerate(cfgs)]
        total += len(items)
        out.count("small_scope_configs_" + name, len(items))
        for b in range(0, len(items), 400):
            jobs.append((name, spec, cfgs, items[b:b + 400]))
    with concurrent.futures.ThreadPoolExecutor(max_workers=16) as ex:
        results = list(ex.map(lambda j: (j, _failing(j[3])), jobs))
    for (name, spec, cfgs, _items), bad in results:
        for i, err in bad[:3]:
            out.violate("a documented combination does not compile (small-scope enumeration)", shape=name,
                        config=J.cfg_text(cfgs[i]), stderr=err,
                        replay_case={"spec": spec, "cfg": cfgs[i], "sorted": None, "match_excluded": True, "seed": 0})
    out.count("small_scope_configs", total)
    out.nontrivial = True
    out.fingerprint = J.fp("small_scope", case["small_scope"])
    out.sample = {"small_scope_max_features": case["small_scope"], "shapes": [n for n, _r, _v in SCOPE_SHAPES], "configs": total}
    return out


def run_case(case):
    if "small_scope" in case:
        return run_small_scope(case)
    out = J.Outcome()
    spec = case["spec"]
    cfg = copy.deepcopy(case["cfg"])
    m = M.RefEnum(spec)
    if case.get("sorted") is not None:
        cfg["feats"].append({"f": "sorted", "params": [[k, None] for k in case["sorted"]]})
        if cfg.get("groups"):
            cfg["groups"][-1] += 1
        else:
            cfg["groups"], cfg["pos"] = [1], ["pre"]
    one = merged(cfg)
    split = len(cfg.get("groups") or []) > 1
    # the first module also holds a sibling derive (another identifier, same features with default names): a derive may
    # not require anything of the surrounding module, so two of them must be able to live side by side
    sib = copy.deepcopy(spec)
    sib["ident"] = "Sibling" if spec.get("ident") != "Sibling" else "Sibling2"
    sib_cfg = {"feats": [{"f": f["f"], "params": [p_ for p_ in f["params"] if p_[0] == "mode"]} for f in cfg["feats"] if f["f"] != "sorted"]}
    sib_cfg["groups"] = [len(sib_cfg["feats"])] if sib_cfg["feats"] else []
    sib_cfg["pos"] = ["pre"] if sib_cfg["feats"] else []
    mods = [(spec, cfg, {"kind": "hostile", "items": [E.enum_item_text(sib, sib_cfg)], "no_prelude": False})] + \
        ([(spec, one, {"kind": "plain"})] if split else [])
    sc = C.script_for_modules(m, [cfg] + ([one] if split else []), J.fp(case), n_hist=3, n_pairs=8, n_strings=12, limit=12)
    obs = J.run_script(out, mods, sc)
    if obs is None and split:
        # attribute the compile failure: does the merged form compile on its own?
        out.violations[-1]["single_attribute_compiles"] = J.compile_probe([(spec, one, {"kind": "plain"})])[1].ok
    C.std_labels(out, m)
    key = cfg_key(case["cfg"])
    out.label("n_features", len(case["cfg"]["feats"]))
    out.label("attributes", len(cfg.get("groups") or []))
    out.label("has_params", "+p" in key)
    out.label("sorted", case.get("sorted"))
    sts = states(case["cfg"])
    shape = "g" if m.gapless else "h"
    out.cover["pairs_x_shape"] = {"%s|%s=%s|%s=%s" % (shape, a, sts[a], b, sts[b])
                                  for a, b in itertools.combinations(E.ALL_FEATURES, 2)}
    if case.get("match_excluded") and E.enabled(case["cfg"], "iter"):
        out.excluded[KF_ITER_MATCH] = 1
    out.nontrivial = key not in SUITE
    out.fingerprint = J.fp(key, J.cfg_text(cfg), shape, m.repr)
    out.sample = {"spec": J.abridge_spec(spec), "config": J.cfg_text(cfg), "also_as_single_attribute": split,
                  "script_lines": len(sc.lines), "script_head": sc.lines[:4]}
    return out
