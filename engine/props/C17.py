"""C17 - expansion is deterministic."""
import re

from hypothesis import strategies as st

from .. import build
from .. import emit as E
from .. import judge as J
from .. import model as M
from .. import strategies as S

ID = "C17"
TIERS = {"quick": 160, "thorough": 1600}
COPIES = 24
PROCS = {"quick": 8, "thorough": 32}
RULE = ("case = generated declaration (weighted to 10-60 variants, permuted order, renames, many features with "
        "parameters, split attributes) placed in 24 identical modules of one crate; -Zunpretty=expanded is run in 8 "
        "(quick) / 32 (thorough) fresh rustc processes, never cached. Oracle: all 24 x K expansions of the declaration "
        "are byte-identical (module name masked). Every HashMap instance gets a fresh SipHash key (std bumps the "
        "per-thread key on each RandomState::new) and every process a fresh random base, so 24 x K samples the hash-seed "
        "space. non-trivial = >= 4 variants and >= 4 features; distinct by (declaration, configuration)")
ASSUMPTIONS = ["hash seeds are sampled, not controlled: an order dependence that needs a specific collision pattern "
               "is detected with probability < 1"]

PROFILE = S.profile(renames=0.4, dups=0.3, attrs=0.45, sizes=[("small", 45), ("medium", 50), ("large", 5)],
                    orders=["perm", "identity", "perm", "identity", "reverse"])


@st.composite
def cases(draw, tier="quick"):
    spec = draw(S.enum_specs(PROFILE))
    cfg = draw(S.configs(spec, p_on=0.7, p_sorted=0.5))
    if not E.enabled(cfg, "sorted") and draw(st.integers(0, 3)) == 0:
        # several rename attributes on one variant (the expansion must still be a function of the declaration)
        for j, v in enumerate(spec["variants"]):
            if v.get("rename") is not None and not v.get("cfg_off") and draw(st.booleans()):
                v["extra_renames"] = ["xr%d_%d" % (j, k) for k in range(draw(st.integers(1, 3)))]
    return {"spec": spec, "cfg": cfg, "procs": PROCS.get(tier, 8)}


def fixed_cases(tier):
    """Size matrix: per repr, every variant count 2..=20 (with one hole and gapless) under the feature sets whose
    automatic mode choice depends on the size - a tie or threshold decided by anything but the declaration shows
    as two differing expansions."""
    return ([{"threshold": r, "procs": PROCS.get(tier, 8)} for r in ("u8", "i8", "u16", "i32", "u64")] +
            # wide spans: values of both signs at the limits of 64-bit and wider signed reprs, declared out of order
            [{"threshold": r, "wide": True, "procs": PROCS.get(tier, 8)} for r in ("i64", "isize", "i128", "u64", "u128")])


THRESHOLD_FEATS = [["iter"], ["iter", "as_str"], ["iter", "range"], ["as_str", "from_str"], ["iter", "next", "next_back", "names"]]
TCOPIES = 3


def run_threshold(case):
    out = J.Outcome()
    r = case["threshold"]
    items = []
    if case.get("wide"):
        lo, hi = M.repr_domain(r)
        for vals in ([lo, -1, 0, 1, hi], [lo, 0, hi], [lo, lo + 1, hi - 1, hi], [lo, lo // 2, 0, hi // 2, hi], [0, hi // 2, hi // 2 + 1, hi], [lo + 5, 7, hi - 3]):
            vals = sorted({v for v in vals if lo <= v <= hi})
            for rot in (1, 2):
                decl = vals[rot:] + vals[:rot]
                decl = decl[::-1] if rot == 2 else decl
                spec = {"repr": r, "vis": "pub", "ident": "E", "enum_attrs": [],
                        "variants": [{"ident": "V%d" % i, "disc": str(v)} for i, v in enumerate(decl)]}
                for fs in THRESHOLD_FEATS:
                    items.append(E.enum_item_text(spec, S.simple_config(fs), only_tools=True))
    for n in (range(2, 21) if not case.get("wide") else ()):
        for holes in (False, True):
            vals = list(range(3, 3 + n))
            if holes:
                vals = vals[:n // 2] + [x + 4 for x in vals[n // 2:]]
            spec = {"repr": r, "vis": "pub", "ident": "E", "enum_attrs": [],
                    "variants": [{"ident": "V%d" % i, "disc": str(v)} for i, v in enumerate(vals)]}
            for fs in THRESHOLD_FEATS:
                items.append(E.enum_item_text(spec, S.simple_config(fs), only_tools=True))
    parts = [E.HEADER]
    for g, item in enumerate(items):
        for c in range(TCOPIES):
            parts.append("pub mod m%d {\n    use ::enum_tools::EnumTools;\n%s\n}" % (g * TCOPIES + c, item))
    src = "\n".join(parts) + "\n"
    first = {}
    total = 0
    for p in range(case["procs"]):
        c = build.rustc(src, mode="expand", crate_name="det", use_cache=False)
        if not c.ok:
            out.violate("a legal declaration failed to expand", stderr=J.short_err(c.stderr))
            break
        mods = split_modules(c.text)
        if len(mods) != len(items) * TCOPIES:
            raise build.InfraError("could not split the expansion into %d modules (got %d)" % (len(items) * TCOPIES, len(mods)))
        for j in sorted(mods):
            total += 1
            g = j // TCOPIES
            if g not in first:
                first[g] = mods[j]
            elif mods[j] != first[g]:
                a, b = first[g].split("\n"), mods[j].split("\n")
                diff = next((i for i in range(min(len(a), len(b))) if a[i] != b[i]), min(len(a), len(b)))
                out.violate("two expansions of the same declaration differ", process=p, module=j, declaration=items[g][:600],
                            first_differing_line=diff, expected=a[diff][:300] if diff < len(a) else None,
                            observed=b[diff][:300] if diff < len(b) else None)
                break
        if out.violations:
            break
    out.count("expansions_compared", total)
    out.count("threshold_declarations", len(items))
    out.nontrivial = True
    out.fingerprint = J.fp("threshold", r, bool(case.get("wide")))
    out.sample = {"threshold_matrix": r, "declarations": len(items), "copies": TCOPIES, "processes": case["procs"]}
    return out


def crate_text(spec, cfg):
    item = E.enum_item_text(spec, cfg, only_tools=True)
    parts = [E.HEADER]
    for j in range(COPIES):
        parts.append("pub mod m%d {\n    use ::enum_tools::EnumTools;\n%s\n}" % (j, item))
    return "\n".join(parts) + "\n"


MOD_RE = re.compile(r"^pub mod m(\d+) \{$", re.M)


def split_modules(text):
    idx = [(mm.start(), int(mm.group(1))) for mm in MOD_RE.finditer(text)]
    out = {}
    for n, (pos, j) in enumerate(idx):
        end = idx[n + 1][0] if n + 1 < len(idx) else len(text)
        body = text[pos:end]
        out[j] = body.replace("pub mod m%d {" % j, "pub mod m {", 1)
    return out


def run_case(case):
    if "threshold" in case:
        return run_threshold(case)
    out = J.Outcome()
    spec, cfg = case["spec"], case["cfg"]
    m = M.RefEnum(spec)
    src = crate_text(spec, cfg)
    first = None
    total = 0
    for p in range(case["procs"]):
        c = build.rustc(src, mode="expand", crate_name="det", use_cache=False)
        if not c.ok:
            out.violate("a legal declaration failed to expand", stderr=J.short_err(c.stderr))
            break
        mods = split_modules(c.text)
        if len(mods) != COPIES:
            raise build.InfraError("could not split the expansion into %d modules (got %d)" % (COPIES, len(mods)))
        for j in sorted(mods):
            total += 1
            if first is None:
                first = mods[j]
            elif mods[j] != first:
                a, b = first.split("\n"), mods[j].split("\n")
                diff = next((i for i in range(min(len(a), len(b))) if a[i] != b[i]), min(len(a), len(b)))
                out.violate("two expansions of the same declaration differ", process=p, module=j,
                            first_differing_line=diff, expected=a[diff][:300] if diff < len(a) else None,
                            observed=b[diff][:300] if diff < len(b) else None)
                break
        if out.violations:
            break
    out.count("expansions_compared", total)
    out.label("variants", "4+" if m.n >= 4 else "<4")
    out.label("features", len(cfg["feats"]))
    out.label("duplicate_names", m.has_duplicate_names())
    out.nontrivial = m.n >= 4 and len(cfg["feats"]) >= 4
    out.fingerprint = J.fp(E.enum_item_text(spec, cfg))
    out.sample = {"declaration_head": E.enum_item_text(dict(spec, variants=spec["variants"][:6]), cfg).split("\n")[:14],
                  "variants": m.n, "copies": COPIES, "processes": case["procs"]}
    return out
