"""C18 - behaviour depends only on the discriminant-to-name map, not on order or repr."""
import copy
import random

from hypothesis import strategies as st

from .. import emit as E
from .. import judge as J
from .. import model as M
from .. import strategies as S
from . import common as C

ID = "C18"
TIERS = {"quick": 560, "thorough": 8000}
RULE = ("case = one generated all-explicit declaration + 2-3 permutations of its declaration order + 2-4 other "
        "admissible repr types (every primitive type that can hold all discriminants: other signedness, 8 to 128 bit, "
        "pointer-sized), all in one probe under the same generated configuration. Oracle: metamorphic - the common "
        "script (every enabled item; variant arguments mapped by identifier; try_from arguments restricted to values "
        "representable in all chosen reprs; repr-typed values printed as integers) must give identical transcripts; "
        "they are additionally compared with the model. non-trivial = >= 3 variants and a non-identity permutation and "
        "a repr of different signedness or width; distinct by (discriminant->name map, permutations, reprs, configuration)")

PROFILE = S.profile(renames=0.3, dups=0.0, attrs=0.05, cfg_off=0.0, repr_cfg_attr=0.0,
                    sizes=[("small", 70), ("medium", 10), ("large", 12), ("full8", 8)], orders=["identity", "perm"])


@st.composite
def cases(draw, tier="quick"):
    spec = draw(S.enum_specs(PROFILE))
    cfg = draw(S.configs(spec, p_on=[0.3, 0.6, 0.6, 0.9], split=False))
    m = M.RefEnum(spec)
    adm = [r for r in M.REPRS if r != spec["repr"] and M.repr_range(r)[0] <= m.min and m.max <= M.repr_range(r)[1]]
    reprs = draw(st.lists(st.sampled_from(adm), min_size=min(1, len(adm)), max_size=min(4, len(adm)), unique=True)) if adm else []
    nperm = draw(st.integers(1, 3))
    return {"spec": spec, "cfg": cfg, "reprs": reprs, "perm_seeds": [draw(st.integers(0, 2 ** 31)) for _ in range(nperm)],
            "seed": draw(st.integers(0, 2 ** 31))}


def explicit(spec, repr_=None):
    m = M.RefEnum(spec)
    s = copy.deepcopy(spec)
    for i, v in enumerate(s["variants"]):
        if v.get("disc") is None or repr_ is not None:
            v["disc"] = str(m.values[i])
    if repr_ is not None:
        s["repr"] = repr_
    return s


def permuted(spec, seed):
    s = copy.deepcopy(spec)
    rnd = random.Random(seed)
    kind = rnd.choice(["shuffle", "reverse", "rotate", "swap_ends"])
    vs = s["variants"]
    if kind == "shuffle":
        rnd.shuffle(vs)
    elif kind == "reverse":
        vs.reverse()
    elif kind == "rotate" and len(vs) > 1:
        k = rnd.randrange(1, len(vs))
        s["variants"] = vs[k:] + vs[:k]
    elif len(vs) > 1:
        vs[0], vs[-1] = vs[-1], vs[0]
    return s


def run_case(case):
    out = J.Outcome()
    spec0 = explicit(case["spec"])
    cfg = case["cfg"]
    m0 = M.RefEnum(spec0)
    specs = [spec0]
    for sd in case["perm_seeds"]:
        specs.append(permuted(spec0, sd))
    for i, r in enumerate(case["reprs"]):
        base = specs[i % len(specs)]                 # re-repr a permuted form half of the time
        specs.append(explicit(base, r))
    models = [M.RefEnum(s) for s in specs]
    for mm in models:
        if sorted(zip(mm.values, mm.names)) != sorted(zip(m0.values, m0.names)):
            raise J.build.InfraError("C18 transformation changed the value->name map")
    ranges = [M.repr_range(s["repr"]) for s in specs]
    lo = max(r[0] for r in ranges)
    hi = min(r[1] for r in ranges)
    sc = E.Script()
    C.full_script(sc, 0, m0, cfg, J.case_rng(case), n_hist=4, n_pairs=10, n_strings=16, limit=24, sweep=False,
                  value_filter=lambda x: lo <= x <= hi)
    pos0 = {ident: i for i, ident in enumerate(m0.idents)}
    for k in range(1, len(specs)):
        imap = {pos0[ident]: j for j, ident in enumerate(models[k].idents)}
        C.translate_script(sc, 0, k, imap)
    modules = [(s, cfg, {"kind": "plain"}) for s in specs]
    obs = J.run_script(out, modules, sc)
    # pure metamorphic comparison (line i of module k corresponds to line i of module 0)
    if obs is not None:
        n0 = sum(1 for l in sc.lines if l.startswith("0 "))
        for k in range(1, len(specs)):
            for i in range(n0):
                a, b = obs[i] if i < len(obs) else None, obs[k * n0 + i] if k * n0 + i < len(obs) else None
                if a is not None and b is not None and a != b:
                    out.violate("a permutation of the declaration order / another repr changes an observable result",
                                call=sc.lines[i], original=a[:300], transformed=b[:300],
                                transformed_decl={"repr": specs[k]["repr"], "order": models[k].idents[:12]})
                    break
        out.count("calls_compared_across_declarations", n0 * (len(specs) - 1))
    C.std_labels(out, m0)
    r0 = spec0["repr"]
    diff_repr = any(M.repr_signed(r) != M.repr_signed(r0) or M.repr_bits(r) != M.repr_bits(r0) for r in case["reprs"])
    nonid = any(mm.idents != m0.idents for mm in models[1:1 + len(case["perm_seeds"])])
    for r in case["reprs"]:
        out.count("repr_to_" + r)
    out.label("other_reprs", len(case["reprs"]))
    out.nontrivial = m0.n >= 3 and nonid and diff_repr
    out.fingerprint = J.fp(sorted(zip(m0.values, m0.names))[:64], [mm.idents[:32] for mm in models], [s["repr"] for s in specs], J.cfg_text(cfg))
    out.sample = {"original": J.abridge_spec(spec0), "config": J.cfg_text(cfg),
                  "transformed": [{"repr": s["repr"], "order_head": mm.idents[:8]} for s, mm in zip(specs[1:], models[1:])]}
    return out
