"""C18 - behaviour depends only on the discriminant-to-name map, not on order or repr."""
import copy
import random

from hypothesis import strategies as st

from .. import emit as E
from .. import judge as J
from .. import model as M
from .. import strategies as S
from . import common as C

ID = "C18"
TIERS = {"quick": 560, "thorough": 8000}
RULE = ("case = one generated all-explicit declaration + 2-3 permutations of its declaration order + 2-4 other "
        "admissible repr types (every primitive type that can hold all discriminants: other signedness, 8 to 128 bit, "
        "pointer-sized), all in one probe under the same generated configuration. Oracle: metamorphic - the common "
        "script (every enabled item; variant arguments mapped by identifier; try_from arguments restricted to values "
        "representable in all chosen reprs; repr-typed values printed as integers) must give identical transcripts; "
        "they are additionally compared with the model. non-trivial = >= 3 variants and a non-identity permutation and "
        "a repr of different signedness or width; distinct by (discriminant->name map, permutations, reprs, configuration)")

PROFILE = S.profile(renames=0.3, dups=0.0, attrs=0.05, cfg_off=0.0, repr_cfg_attr=0.0,
                    sizes=[("small", 70), ("medium", 10), ("large", 12), ("full8", 8)], orders=["identity", "perm"])


@st.composite
def cases(draw, tier="quick"):
    spec = draw(S.enum_specs(PROFILE))
    cfg = draw(S.configs(spec, p_on=[0.3, 0.6, 0.6, 0.9], split=False))
    m = M.RefEnum(spec)
    adm = [r for r in M.REPRS if r != spec["repr"] and M.repr_range(r)[0] <= m.min and m.max <= M.repr_range(r)[1]]
    reprs = draw(st.lists(st.sampled_from(adm), min_size=min(1, len(adm)), max_size=min(4, len(adm)), unique=True)) if adm else []
    nperm = draw(st.integers(1, 3))
    return {"spec": spec, "cfg": cfg, "reprs": reprs, "perm_seeds": [draw(st.integers(0, 2 ** 31)) for _ in range(nperm)],
            "seed": draw(st.integers(0, 2 ** 31))}


def fixed_cases(tier):
    """The same three / four-value map sitting on every integer type's limit, under every repr that can hold it."""
    from . import C01
    out = []
    for L in C01.NARROW_LIMITS:
        for shape in ("ends_at", "starts_at"):
            vals = [L - 2, L - 1, L] if shape == "ends_at" else [L, L + 1, L + 3]
            adm = [r for r in M.REPRS if M.repr_domain(r)[0] <= vals[0] and vals[-1] <= M.repr_domain(r)[1]]
            if len(adm) < 2:
                continue
            spec = {"repr": adm[0], "vis": "pub", "ident": "E", "enum_attrs": [],
                    "variants": [{"ident": "V%d" % i, "disc": str(v)} for i, v in enumerate(vals)]}
            out.append({"spec": spec, "cfg": S.simple_config(E.ALL_FEATURES), "reprs": adm[1:], "perm_seeds": [3], "seed": 0})
    # structured value sets (flags, flags with an unused bit, arithmetic, mirrored, blocks, a wide span) under every repr
    # that can hold them: a fast path chosen by the value pattern must not depend on the repr's signedness or width
    structured = [[1, 2, 4, 8], [1, 2, 4, 8, 16, 32, 64], [0, 1, 2, 4, 8], [1, 2, 8, 16], [3, 6, 9, 12, 15], [0, 10, 20, 30],
                  [-3, -2, -1, 1, 2, 3], [-100, 0, 1, 100], [0, 1, 2, 3, 4], [10, 11, 20, 21, 30, 31, 32], [5, 6, 7, 100, 101, 102, 120],
                  [-128, -1, 0, 127], [0, 127, 128, 255], [2, 3, 5, 7, 11, 13]]
    for vals in structured:
        adm = [r for r in M.REPRS if M.repr_domain(r)[0] <= vals[0] and vals[-1] <= M.repr_domain(r)[1]]
        spec = {"repr": adm[0], "vis": "pub", "ident": "E", "enum_attrs": [],
                "variants": [{"ident": "V%d" % i, "disc": str(v)} for i, v in enumerate(vals)]}
        out.append({"spec": spec, "cfg": S.simple_config(E.ALL_FEATURES), "reprs": adm[1:], "perm_seeds": [5], "seed": 2})
    # a map that fills an 8-bit repr completely, under the 8-bit repr and under wider twins, in every iterator mode
    for r, vals, twins in (("u8", list(range(256)), ["u16", "i16", "u64"]), ("i8", list(range(-128, 128)), ["i16", "i64", "isize"])):
        for md in ("next_and_back", "table", None):
            spec = {"repr": r, "vis": "pub", "ident": "E", "enum_attrs": [],
                    "variants": [{"ident": "V%d" % i, "disc": str(v)} for i, v in enumerate(vals)]}
            out.append({"spec": spec, "cfg": S.simple_config(E.ALL_FEATURES, {"iter": md} if md else {}), "reprs": twins,
                        "perm_seeds": [], "seed": 1})
    return out


def explicit(spec, repr_=None):
    m = M.RefEnum(spec)
    s = copy.deepcopy(spec)
    for i, v in enumerate(s["variants"]):
        if v.get("disc") is None or repr_ is not None:
            v["disc"] = str(m.values[i])
    if repr_ is not None:
        s["repr"] = repr_
    return s


def permuted(spec, seed):
    s = copy.deepcopy(spec)
    rnd = random.Random(seed)
    kind = rnd.choice(["shuffle", "reverse", "rotate", "swap_ends"])
    vs = s["variants"]
    if kind == "shuffle":
        rnd.shuffle(vs)
    elif kind == "reverse":
        vs.reverse()
    elif kind == "rotate" and len(vs) > 1:
        k = rnd.randrange(1, len(vs))
        s["variants"] = vs[k:] + vs[:k]
    elif len(vs) > 1:
        vs[0], vs[-1] = vs[-1], vs[0]
    return s


def run_case(case):
    out = J.Outcome()
    spec0 = explicit(case["spec"])
    cfg = case["cfg"]
    m0 = M.RefEnum(spec0)
    specs = [spec0]
    for sd in case["perm_seeds"]:
        specs.append(permuted(spec0, sd))
    for i, r in enumerate(case["reprs"]):
        base = specs[i % len(specs)]                 # re-repr a permuted form half of the time
        specs.append(explicit(base, r))
    models = [M.RefEnum(s) for s in specs]
    for mm in models:
        if sorted(zip(mm.values, mm.names)) != sorted(zip(m0.values, m0.names)):
            raise J.build.InfraError("C18 transformation changed the value->name map")
    # every module gets the script for its own repr range (try_from arguments beyond a narrower twin's range are
    # still compared among the wider twins); calls are matched across modules by a canonical key in which variant
    # arguments are written as discriminant values
    sc = E.Script()
    seed = J.fp(case)
    for k, mm in enumerate(models):
        lo_k, hi_k = M.repr_range(specs[k]["repr"])
        C.full_script(sc, k, mm, cfg, random.Random(seed), n_hist=4, n_pairs=10, n_strings=16, limit=24, sweep=False,
                      value_filter=lambda x, lo_k=lo_k, hi_k=hi_k: lo_k <= x <= hi_k)
    modules = [(s_, cfg, {"kind": "plain"}) for s_ in specs]
    obs = J.run_script(out, modules, sc)
    compared = 0
    if obs is not None:
        groups = {}
        for line, o in zip(sc.lines, obs):
            parts = line.split(" ")
            k, cmd, args = int(parts[0]), parts[1], parts[2:]
            for j in range(C.INDEX_ARGS.get(cmd, 0)):
                args[j] = "v%d" % models[k].values[int(args[j])]
            groups.setdefault(" ".join([cmd] + args), []).append((k, o))
        for key, lst in groups.items():
            if len(lst) < 2:
                continue
            compared += 1
            if len({o for _k, o in lst}) > 1:
                k_bad = next(k for k, o in lst if o != lst[0][1])
                out.violate("a permutation of the declaration order / another repr changes an observable result",
                            call=key, results=[{"repr": specs[k]["repr"], "order_head": models[k].idents[:6], "observed": o[:200]} for k, o in lst][:6],
                            transformed_decl={"repr": specs[k_bad]["repr"], "order": models[k_bad].idents[:12]})
        out.count("calls_compared_across_declarations", compared)
    C.std_labels(out, m0)
    r0 = spec0["repr"]
    diff_repr = any(M.repr_signed(r) != M.repr_signed(r0) or M.repr_bits(r) != M.repr_bits(r0) for r in case["reprs"])
    nonid = any(mm.idents != m0.idents for mm in models[1:1 + len(case["perm_seeds"])])
    for r in case["reprs"]:
        out.count("repr_to_" + r)
    out.label("other_reprs", len(case["reprs"]))
    out.nontrivial = m0.n >= 3 and nonid and diff_repr
    out.fingerprint = J.fp(sorted(zip(m0.values, m0.names))[:64], [mm.idents[:32] for mm in models], [s["repr"] for s in specs], J.cfg_text(cfg))
    out.sample = {"original": J.abridge_spec(spec0), "config": J.cfg_text(cfg),
                  "transformed": [{"repr": s["repr"], "order_head": mm.idents[:8]} for s, mm in zip(specs[1:], models[1:])]}
    return out
