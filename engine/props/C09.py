"""C09 - modes and auto selection never change observable behaviour."""
import copy

from hypothesis import strategies as st

from .. import emit as E
from .. import judge as J
from .. import model as M
from .. import strategies as S
from . import common as C

ID = "C09"
TIERS = {"quick": 560, "thorough": 8000}
RULE = ("case = one generated declaration x K = 4-6 legal configurations in one probe: a base configuration and "
        "variants of it with every mode of as_str / from_str / FromStr / iter re-drawn (explicit and auto) and random "
        "features toggled (names, range, table-mode parsers, Debug/Display/IntoStr - which steer what auto resolves "
        "to), enum sizes on both sides of the auto threshold N*size <= 8. Oracle: pure differential - the same script "
        "(all items, sweeps, boundary arguments, iterator histories, ranges) must give identical transcripts, panics "
        "included, for every item two configurations both enable. The resolver model only steers generation and labels "
        "cases. non-trivial = the K configurations cover >= 2 distinct predicted resolutions of at least one feature; "
        "distinct by (declaration, configuration set)")

PROFILE = S.profile(renames=0.4, dups=0.05, attrs=0.1, sizes=[("small", 78), ("medium", 12), ("large", 6), ("full8", 4)],
                    orders=["identity", "reverse", "perm", "by_name", "by_name"], raw_idents=0.12)
TOGGLE = ["names", "range", "Debug", "Display", "IntoStr", "from_str", "FromStr", "as_str", "iter", "next", "next_back",
          "MIN", "MAX", "try_from", "TryFrom", "into", "Into"]


@st.composite
def cases(draw, tier="quick"):
    spec = draw(S.enum_specs(PROFILE))
    m = M.RefEnum(spec)
    base = draw(S.configs(spec, p_on=[0.3, 0.65, 0.65, 0.9], split=False, params=False, p_sorted=0.5))
    k = draw(st.integers(3, 5))
    variants = []
    for _ in range(k):
        modes = {}
        for f in ("as_str", "from_str", "FromStr"):
            modes[f] = draw(st.sampled_from([None, "auto", "match", "table"]))
        modes["iter"] = draw(st.sampled_from(S.legal_iter_modes(m, False)))
        toggles = draw(st.lists(st.sampled_from(TOGGLE), max_size=4, unique=True))
        variants.append({"modes": modes, "toggle": toggles})
    return {"spec": spec, "base": base, "variants": variants, "seed": draw(st.integers(0, 2 ** 31))}


def fixed_cases(tier):
    """8-bit size matrix (enums that half-fill, nearly fill and fill an 8-bit repr, gapless and with holes) and the
    run-length matrix: every iterator / string mode side by side with range enabled."""
    out = []
    shapes = []
    for r in ("u8", "i8"):
        lo, hi = M.repr_domain(r)
        for vals in ([lo + i for i in range(128)], [lo + i for i in range(129)], [lo + i for i in range(255)], [lo + i for i in range(256)],
                     list(range(lo, lo + 100)) + list(range(lo + 101, lo + 130)), list(range(lo, lo + 128)) + list(range(lo + 129, hi + 1)),
                     [lo] + list(range(lo + 2, hi + 1))):
            shapes.append(C.scope_spec(r, vals))
    shapes += C.run_length_specs({(64, 64), (65, 64), (128, 128), (129, 63), (256, 63)})
    base = S.simple_config(["iter", "range", "as_str", "from_str", "FromStr", "next", "next_back", "try_from", "names", "MIN", "MAX"])
    variants = [{"modes": {"iter": "table", "as_str": "table", "from_str": "table", "FromStr": "table"}, "toggle": []},
                {"modes": {"iter": "next_and_back", "as_str": "match", "from_str": "match", "FromStr": "match"}, "toggle": []},
                {"modes": {"iter": "range", "as_str": None, "from_str": None, "FromStr": None}, "toggle": ["names"]},
                {"modes": {"iter": "table_inline", "as_str": "auto", "from_str": "auto", "FromStr": "auto"}, "toggle": ["range"]}]
    for spec in shapes:
        out.append({"spec": spec, "base": base, "variants": variants, "seed": 1})
    return out


def derive_cfg(base, var, m):
    names = [f["f"] for f in base["feats"]]
    on = set(names)
    for t in var["toggle"]:
        if t in on:
            on.discard(t)
        else:
            on.add(t)
    if "range" in on and "iter" not in on:
        on.add("iter")
    feats = []
    for f in E.ALL_FEATURES:
        if f not in on:
            continue
        ps = []
        if f in E.MODE_FEATURES:
            md = var["modes"].get(f)
            if f == "iter":
                if md == "table_inline" and "range" in on:
                    md = "table"
                if md == "range" and not m.gapless:
                    md = "auto"
            if md is not None:
                ps.append(["mode", md])
        feats.append({"f": f, "params": ps})
    return {"feats": feats, "groups": [len(feats)] if feats else [], "pos": ["pre"] if feats else []}


def run_case(case):
    out = J.Outcome()
    spec = case["spec"]
    m = M.RefEnum(spec)
    base = C.with_feats(case["base"], {})
    cfgs = [base] + [derive_cfg(case["base"], v, m) for v in case["variants"]]
    sc = C.script_for_modules(m, cfgs, J.fp(case), n_hist=5, n_pairs=12, n_strings=16, limit=24)
    sc.expected = [e if t.startswith("ref_") else None for e, t in zip(sc.expected, sc.tags)]
    modules = [(spec, c, {"kind": "plain"}) for c in cfgs]
    obs = J.run_script(out, modules, sc)
    compared = C.differential(out, sc, obs, "modes / co-enabled features")
    out.count("calls_compared_across_configurations", compared)
    C.std_labels(out, m)
    preds = [C.predict_modes(m, c) for c in cfgs]
    distinct = False
    for f in ("as_str", "from_str", "FromStr", "iter"):
        vals = {p[f] for p in preds if f in p}
        for v in vals:
            out.count("predicted_%s_%s" % (f, v))
        if len(vals) >= 2:
            distinct = True
    out.label("auto_threshold_side", "le8" if m.n * M.guessed_size(m.repr) <= 8 else "gt8")
    out.nontrivial = distinct and compared > 0
    out.fingerprint = J.fp(m.repr, m.values[:64], m.names[:32], [J.cfg_text(c) for c in cfgs])
    out.sample = {"spec": J.abridge_spec(spec), "configurations": [J.cfg_text(c) for c in cfgs],
                  "predicted_resolutions": preds, "calls_compared": compared}
    return out
