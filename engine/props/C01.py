"""C01 - try_from/TryFrom is the exact partial inverse of into/Into over all repr values."""
import random

from hypothesis import strategies as st

from .. import emit as E
from .. import judge as J
from .. import model as M
from .. import strategies as S
from . import common as C

ID = "C01"
TIERS = {"quick": 1280, "thorough": 20000}
RULE = ("case = generated enum (12 reprs, 1..700 variants, 1..9 runs, anchors at type MIN/MAX/0/negative, any "
        "declaration order and literal spelling) x generated legal configuration with try_from, TryFrom, into, Into "
        "forced on and random co-features; inputs = exhaustive in-probe sweep of the whole repr for 8/16-bit reprs, "
        "else every discriminant (sampled above 64), both neighbours of every run boundary, hole midpoints, "
        "type limits, power-of-two edges, aliases of discriminants modulo 2^8/16/32/64 and PRNG values over the full repr "
        "range; plus a deterministic limits matrix: per repr, gapless and two-run enums whose MAX / MIN sits exactly on "
        "the limit of every (possibly narrower) integer type that fits, a span matrix (MAX - MIN on / next to every power "
        "of two up to 65536) and a run-count matrix (exactly k runs, k around every power of two up to 300). Oracle = "
        "reference model. "
        "non-trivial = enum the pinned suite cannot express: repr != i8, or a negative value, or MIN != 0, or >= 3 "
        "runs, or touching a type limit; distinct by (repr, discriminant set, configuration)")

PROFILE = S.profile(renames=0.1, dups=0.0, attrs=0.1, sizes=[("small", 70), ("medium", 12), ("large", 14), ("full8", 4)],
                    shapes=["gapless", "holes", "holes", "many", "lots", "lots"])


@st.composite
def cases(draw, tier="quick"):
    spec = draw(S.enum_specs(PROFILE))
    cfg = draw(S.configs(spec, force=("try_from", "TryFrom", "into", "Into"), p_on=0.35, p_sorted=0.15))
    return {"spec": spec, "cfg": cfg, "seed": draw(st.integers(0, 2 ** 31))}


NARROW_LIMITS = [2 ** 7 - 1, 2 ** 8 - 1, 2 ** 15 - 1, 2 ** 16 - 1, 2 ** 31 - 1, 2 ** 32 - 1, 2 ** 63 - 1,
                 -2 ** 7, -2 ** 15, -2 ** 31, -2 ** 63, 0, 2 ** 8, 2 ** 16, 2 ** 32]


def fixed_cases(tier):
    """Per repr: small gapless and two-run enums whose MAX (resp. MIN) sits exactly on the limit of every integer type
    that fits - wrong-width bound tests and limit special cases (one probe per repr)."""
    out = [{"limits_matrix": r} for r in M.REPRS]
    # span matrix: enums with holes whose MAX - MIN is exactly on / next to a power of two (bit-set style membership tests)
    for T in (7, 8, 9, 15, 16, 17, 31, 32, 33, 63, 64, 65, 127, 128, 129, 255, 256, 257, 65535, 65536):
        for r, base in (("u8", 10), ("i32", -32), ("u64", 1000)):
            lo, hi = M.repr_domain(r)
            if base + T > hi:
                base = 0
            if base + T > hi:
                continue
            vals = sorted({base, base + 1, base + T // 2, base + T})
            spec = {"repr": r, "vis": "pub", "ident": "E", "enum_attrs": [],
                    "variants": [{"ident": "V%d" % i, "disc": str(v)} for i, v in enumerate(vals)]}
            out.append({"spec": spec, "cfg": S.simple_config(["try_from", "TryFrom", "into", "Into"]), "seed": T})
    # run-count matrix: exactly k runs for k around every power of two up to 300
    for spec in C.run_count_specs():
        out.append({"spec": spec, "cfg": S.simple_config(["try_from", "TryFrom", "into", "Into"]), "seed": 0})
    for spec in C.structured_specs():
        out.append({"spec": spec, "cfg": S.simple_config(["try_from", "TryFrom", "into", "Into"]), "seed": 4})
    for spec in C.block_specs():
        out.append({"spec": spec, "cfg": S.simple_config(["try_from", "TryFrom", "into", "Into"]), "seed": 3})
    for spec in C.span_specs():
        out.append({"spec": spec, "cfg": S.simple_config(["try_from", "TryFrom", "into", "Into"]), "seed": 2})
    # run-length matrix: runs whose length is on / next to a power of two
    for spec in C.run_length_specs():
        out.append({"spec": spec, "cfg": S.simple_config(["try_from", "TryFrom", "into", "Into"]), "seed": 1})
    return out


def limits_modules(r):
    lo, hi = M.repr_domain(r)
    modules, models = [], []
    cfg = S.simple_config(["try_from", "TryFrom", "into", "Into", "MIN", "MAX", "next", "next_back"])
    for L in NARROW_LIMITS:
        for shape in ("ends_at", "starts_at", "ends_at_holes", "starts_at_holes"):
            if shape == "ends_at":
                vals = [L - 2, L - 1, L]
            elif shape == "starts_at":
                vals = [L, L + 1, L + 2]
            elif shape == "ends_at_holes":
                vals = [L - 9, L - 8, L - 1, L]
            else:
                vals = [L, L + 1, L + 7, L + 9]
            if vals[0] < lo or vals[-1] > hi:
                continue
            spec = {"repr": r, "vis": "pub", "ident": "E", "enum_attrs": [],
                    "variants": [{"ident": "V%d" % i, "disc": str(v)} for i, v in enumerate(vals)]}
            modules.append((spec, cfg, {"kind": "plain"}))
            models.append(M.RefEnum(spec))
    return modules, models, cfg


def limits_script(case, models, cfg):
    sc = E.Script()
    rnd = J.case_rng(case)
    for k, m in enumerate(models):
        C.sc_into(sc, k, m, cfg, list(range(m.n)))
        C.sc_try_from(sc, k, m, cfg, C.boundary_values(m, rnd), sweep=False)
        C.sc_minmax(sc, k, m, cfg)
        C.sc_next(sc, k, m, cfg, list(range(m.n)))
    return sc


def run_limits_matrix(case):
    out = J.Outcome()
    r = case["limits_matrix"]
    modules, models, cfg = limits_modules(r)
    sc = limits_script(case, models, cfg)
    J.run_script(out, modules, sc)
    out.count("limits_matrix_enums", len(modules))
    out.nontrivial = True
    out.fingerprint = J.fp("limits_matrix", r)
    out.sample = {"limits_matrix": r, "enums": len(modules), "script_lines": len(sc.lines)}
    return out


def run_case(case):
    if "limits_matrix" in case:
        return run_limits_matrix(case)
    out = J.Outcome()
    spec, cfg = case["spec"], case["cfg"]
    m = M.RefEnum(spec)
    rnd = J.case_rng(case)
    sc = E.Script()
    idxs = C.pick_idxs(m, rnd)
    C.sc_cast(sc, 0, m, idxs)
    C.sc_into(sc, 0, m, cfg, idxs)
    ns = C.boundary_values(m, rnd)
    C.sc_try_from(sc, 0, m, cfg, ns)
    J.run_script(out, [(spec, cfg, {"kind": "plain"})], sc)
    lab = m.labels()
    for k, v in lab.items():
        out.label(k, v)
    out.label("range_table_with_offset", (not m.gapless) and (E.param(E.feat(cfg, "as_str"), "mode") == "table" or E.enabled(cfg, "range")))
    out.count("try_from_args", len(ns) * 2)
    if M.repr_bits(m.repr) <= 16:
        out.count("exhaustive_sweeps", 2)
        out.count("sweep_values", 2 * (2 ** M.repr_bits(m.repr)))
    out.nontrivial = (m.repr != "i8" or m.min < 0 or m.min != 0 or len(m.runs) >= 3 or lab["touch_type_min"] or lab["touch_type_max"])
    out.fingerprint = J.fp(m.repr, m.sorted_values if m.n <= 64 else [m.n, m.runs[:20]], J.cfg_text(cfg))
    out.sample = {"spec": J.abridge_spec(spec), "config": J.cfg_text(cfg), "script_head": sc.lines[:6],
                  "expected_head": [e if isinstance(e, str) and len(e) < 80 else str(e)[:80] for e in sc.expected[:6]]}
    return out
