"""C15 - name, vis and struct_name parameters are honoured; helper items stay private."""
import json
import re

from hypothesis import strategies as st

from .. import build
from .. import emit as E
from .. import judge as J
from .. import model as M
from .. import strategies as S

ID = "C15"
TIERS = {"quick": 640, "thorough": 10000}
RULE = ("case = generated small enum with one of 7 visibilities (private, pub(in self module), pub(super), "
        "pub(in parent), pub(crate), pub(in crate), pub) and a varied identifier x generated configuration with "
        "name / vis / struct_name parameters on random features and feature sets that pull in helper items. Oracles: "
        "(1) positive probe - every requested item is used under its requested name from every location its "
        "visibility allows (defining module, child, parent, crate root, another crate) and must compile; (2) negative "
        "probes - one line per (item, location its visibility forbids while the enum itself is nameable there); rustc's "
        "JSON diagnostics must report a privacy error on each of those lines; (3) surface scan of the "
        "-Zunpretty=expanded output: every non-private fn/const/struct and every trait impl in the derive's output "
        "must be in the set predicted from the request (decides 'helpers are not reachable' and 'nothing else is "
        "added' without depending on helper names). non-trivial = a name or vis differs from the default, or a helper "
        "item is pulled in; distinct by (enum vis, ident, configuration, shape)")

# (text, rank): rank 0 defining module only, 1 parent module, 2 crate, 3 everywhere
ENUM_VIS = [("pub", 3), ("pub(crate)", 2), ("pub(super)", 1), ("", 0), ("pub(in crate::outer)", 1),
            ("pub(in crate)", 2), ("pub(in crate::outer::def)", 0), ("pub(self)", 0)]
PARAM_RANK = {"": 0, "pub(crate)": 2, "pub": 3}
IDENTS = ["E", "MyEnum", "Ünï", "e_x", "Color", "T", "B", "F", "Item", "Iter"]

PROFILE = S.profile(renames=0.1, dups=0.0, attrs=0.05, cfg_off=0.0, sizes=[("small", 100)], vis=["pub"], repr_cfg_attr=0.0)


@st.composite
def cases(draw, tier="quick"):
    spec = draw(S.enum_specs(PROFILE))
    vis, rank = draw(st.sampled_from(ENUM_VIS))
    spec["vis"] = vis
    spec["ident"] = draw(st.sampled_from(IDENTS))
    m = M.RefEnum(spec)
    chosen = [f for f in E.ALL_FEATURES if S.chance(draw, 0.45)]
    if "range" in chosen and "iter" not in chosen:
        chosen.append("iter")
    used = set(m.idents) | {spec["ident"], spec["ident"] + "Iter", spec["ident"] + "Names"}
    feats = []
    struct_used = set()
    for f in chosen:
        ps = []
        if f in E.MODE_FEATURES:
            md = draw(st.sampled_from(S.legal_iter_modes(m, "range" in chosen) if f == "iter" else [None, "auto", "match", "table"]))
            if md is not None:
                ps.append(["mode", md])
        if f in E.FN_FEATURES:
            if S.chance(draw, 0.45):
                nm = draw(st.sampled_from(["%s_x" % f.lower(), "my%s" % f.capitalize(), "ünï_%s" % f.lower(), "%s2" % f, "get_%s" % f.lower(), "__u_%s" % f.lower(), "_%s" % f.lower()]))
                if nm not in used and nm not in E.ALL_FEATURES:
                    used.add(nm)
                    ps.append(["name", nm])
            if S.chance(draw, 0.5):
                cands = ["", "pub(crate)", "pub"]
                if f == "iter":
                    cands = [c for c in cands if PARAM_RANK[c] <= rank]
                ps.append(["vis", draw(st.sampled_from(cands))])
        if f in E.STRUCT_FEATURES and S.chance(draw, 0.45):
            fn_names = [p_[1] for ff in feats for p_ in ff["params"] if p_[0] == "name"] + [p_[1] for p_ in ps if p_[0] == "name"]
            sn = draw(st.sampled_from(["My%sStruct" % f.capitalize(), "It_%s" % f, "Σ%s" % f.capitalize()] + fn_names[-2:] + ["MIN"]))
            # a module-level struct may share its name with an associated fn / const (different namespaces)
            if (sn not in used or sn in fn_names) and sn not in struct_used:
                used.add(sn)
                struct_used.add(sn)
                ps.append(["struct_name", sn])
        feats.append({"f": f, "params": ps})
    if len(feats) > 1:
        feats = list(draw(st.permutations(feats)))
    cfg = {"feats": feats, "groups": [len(feats)] if feats else [], "pos": ["pre"] if feats else []}
    return {"spec": spec, "cfg": cfg, "enum_rank": rank}


METHOD_NAMES = ["clone", "to_owned", "to_string", "default", "as_ref", "fmt", "eq", "cmp", "hash", "borrow", "len", "count",
                "try_into", "type_id", "nth", "last"]


def fixed_cases(tier):
    """Method-like names: every function-like feature in turn is given the name of a prelude / iterator trait method
    while all other features are on with their defaults (the derive's own cross-calls - iterator -> next / next_back,
    Debug / Display -> as_str, trait forms -> inherent forms - must keep calling the user's item, by path)."""
    out = []
    shapes = [("u8", [0, 1, 2, 3, 4]), ("i16", [-3, -2, 5, 6, 9])]
    k = 0
    for r, vals in shapes:
        for f in E.FN_FEATURES:
            for j in range(3 if tier == "quick" else len(METHOD_NAMES)):
                nm = METHOD_NAMES[(k + j * 5) % len(METHOD_NAMES)]
                spec = {"repr": r, "vis": "pub", "ident": "E", "enum_attrs": [],
                        "variants": [{"ident": "V%d" % i, "disc": str(v)} for i, v in enumerate(vals)]}
                feats = []
                for g in E.ALL_FEATURES:
                    ps = []
                    if g == f:
                        ps = [["name", nm], ["vis", "pub"]]
                    if g == "iter" and (k + j) % 2 == 0:
                        ps.append(["mode", "next_and_back"])
                    feats.append({"f": g, "params": ps})
                out.append({"spec": spec, "cfg": {"feats": feats, "groups": [len(feats)], "pos": ["pre"]}, "enum_rank": 3})
            k += 1
    # visibility matrix: every enum visibility x every function-like feature alone x every vis parameter
    fl = E.FN_FEATURES if tier == "thorough" else ["into", "MIN", "next", "iter", "names", "range", "as_str", "try_from"]
    for evis, erank in ENUM_VIS:
        for f in fl:
            for pv in ("", "pub(crate)", "pub"):
                if f == "iter" and PARAM_RANK[pv] > erank:
                    continue
                spec = {"repr": "u8", "vis": evis, "ident": "E", "enum_attrs": [],
                        "variants": [{"ident": "V%d" % i, "disc": str(v)} for i, v in enumerate([0, 1, 2, 5])]}
                feats = [{"f": f, "params": [["vis", pv]]}]
                if f == "range":
                    feats.append({"f": "iter", "params": []})
                out.append({"spec": spec, "cfg": {"feats": feats, "groups": [len(feats)], "pos": ["pre"]}, "enum_rank": erank})
    return out


def item_table(spec, cfg, enum_rank):
    """[(kind, feature, name, rank, use_expr_template)] for every item the user requested."""
    ident = spec["ident"]
    m = M.RefEnum(spec)
    v0 = m.idents[0]
    items = []
    for f in cfg["feats"]:
        fn = f["f"]
        if fn not in E.FN_FEATURES:
            continue
        name = E.param(f, "name", fn)
        vis = E.param(f, "vis", None)
        rank = enum_rank if vis is None else PARAM_RANK[vis]
        val = "{P}%s::%s" % (ident, v0)
        call = {
            "as_str": "let _: &'static str = {P}%s::%s(%s);" % (ident, name, val),
            "from_str": "let _: ::core::option::Option<{P}%s> = {P}%s::%s(\"x\");" % (ident, ident, name),
            "into": "let _: %s = {P}%s::%s(%s);" % (spec["repr"], ident, name, val),
            "try_from": "let _: ::core::option::Option<{P}%s> = {P}%s::%s(0);" % (ident, ident, name),
            "next": "let _: ::core::option::Option<{P}%s> = {P}%s::%s(%s);" % (ident, ident, name, val),
            "next_back": "let _: ::core::option::Option<{P}%s> = {P}%s::%s(%s);" % (ident, ident, name, val),
            "MIN": "let _: {P}%s = {P}%s::%s;" % (ident, ident, name),
            "MAX": "let _: {P}%s = {P}%s::%s;" % (ident, ident, name),
            "iter": "let _ = {P}%s::%s();" % (ident, name),
            "names": "let _ = {P}%s::%s();" % (ident, name),
            "range": "let _ = {P}%s::%s(%s, %s);" % (ident, name, val, val),
        }[fn]
        if fn == "range":
            itf = E.feat(cfg, "iter")
            iv = E.param(itf, "vis", None)
            rank = min(rank, enum_rank if iv is None else PARAM_RANK[iv])      # needs the iterator struct too
        items.append(("assoc", fn, name, rank, call))
        if fn in E.STRUCT_FEATURES:
            sn = E.struct_name(cfg, spec, fn)
            items.append(("struct", fn, sn, rank, "let _: ::core::option::Option<{P}%s> = ::core::option::Option::None;" % sn))
    return items


LOCS = [("inside", 0, ""), ("child", 0, "super::"), ("parent", 1, "def::"), ("sibling", 1, "super::def::"),
        ("root", 2, "outer::def::"), ("extern", 3, "::lib0::outer::def::")]


def crate_text(spec, cfg, probes, with_enum=True, bare=False):
    """probes: {loc: [lines]}"""
    if bare:
        return ("%spub mod outer {\n  pub mod def {\n    use ::enum_tools::EnumTools;\n%s\n  }\n}\n" % (E.HEADER, E.enum_item_text(spec, cfg, only_tools=True)))
    def body(loc):
        return "\n".join("            " + l for l in probes.get(loc, []))
    return ("%spub mod outer {\n  pub mod def {\n    use ::enum_tools::EnumTools;\n%s\n"
            "    pub fn inside() {\n%s\n    }\n    pub mod child { pub fn f() {\n%s\n    } }\n  }\n"
            "  pub fn parent() {\n%s\n  }\n  pub mod sibling { pub fn f() {\n%s\n  } }\n}\npub fn root() {\n%s\n}\n"
            % (E.HEADER, E.enum_item_text(spec, cfg), body("inside"), body("child"), body("parent"), body("sibling"), body("root")))


def error_lines(stderr):
    out = {}
    for l in stderr.split("\n"):
        if not l.startswith("{"):
            continue
        try:
            d = json.loads(l)
        except Exception:
            continue
        if d.get("level") != "error":
            continue
        code = (d.get("code") or {}).get("code")
        for sp in d.get("spans", []):
            if sp.get("is_primary"):
                out.setdefault(sp["line_start"], []).append((code, d.get("message", "")))
    return out


STR_RE = re.compile(r'r(#*)".*?"\1|"(?:\\.|[^"\\])*"')
PRIVACY_CODES = {"E0603", "E0624", "E0616"}


def is_privacy(code, message):
    return code in PRIVACY_CODES or " is private" in message
ITEM_RE = re.compile(r"^\s*(?:#\[[^\]]*\]\s*)*(pub(?:\([^)]*\))?\s+)?(?:unsafe\s+)?(const\s+fn|fn|const|struct|static|type|enum|trait|mod|union)\s+([A-Za-z_\u0080-￿][\w\u0080-￿]*)")
IMPL_RE = re.compile(r"^\s*(?:unsafe\s+)?impl(?:<[^>]*>)?\s+(.*?)\s+for\s+(.*?)\s*(?:where.*?)?(?:\{\s*\}?)?\s*$")


def expected_surface(spec, cfg):
    ident = spec["ident"]
    r = spec["repr"]
    items = set()
    for f in cfg["feats"]:
        fn = f["f"]
        if fn in E.FN_FEATURES:
            items.add(E.param(f, "name", fn))
        if fn in E.STRUCT_FEATURES:
            items.add(E.struct_name(cfg, spec, fn))
    impls = set()
    en = lambda x: E.enabled(cfg, x)
    if en("Debug"):
        impls.add(("::core::fmt::Debug", ident))
    if en("Display"):
        impls.add(("::core::fmt::Display", ident))
    if en("FromStr"):
        impls.add(("::core::str::FromStr", ident))
    if en("Into"):
        impls.add(("::core::convert::From<%s>" % ident, r))
    if en("IntoStr"):
        impls.add(("::core::convert::From<%s>" % ident, "&'static str"))
    if en("TryFrom"):
        impls.add(("::core::convert::TryFrom<%s>" % r, ident))
    for which in ("iter", "names"):
        if en(which):
            sn = E.struct_name(cfg, spec, which)
            for t in ("Iterator", "DoubleEndedIterator", "ExactSizeIterator", "FusedIterator"):
                impls.add(("::core::iter::" + t, sn))
    return items, impls


def scan_surface(text, ident):
    """(non_private_items, impls, private_items) found in the expanded module `def` (the enum item itself excluded)."""
    lines = text.split("\n")
    # cut to the module def
    try:
        a = next(i for i, l in enumerate(lines) if re.match(r"\s*pub mod def \{", l))
    except StopIteration:
        raise build.InfraError("expanded output has no module def")
    depth = 0
    body = []
    for l in lines[a:]:
        bare = STR_RE.sub('""', l)
        depth += bare.count("{") - bare.count("}")
        body.append(l)
        if depth == 0 and len(body) > 1:
            break
    pub, priv, impls = [], [], []
    uses = []
    depth_before = 1
    skip_depth = None       # inside a private nested module: nothing in there is reachable from outside
    depth = 1
    for l in body[1:]:
        bare = STR_RE.sub('""', l)
        if skip_depth is None and re.match(r"^\s*mod\s+\w+\s*\{", bare):
            skip_depth = depth
            depth += bare.count("{") - bare.count("}")
            continue
        depth_before = depth
        depth += bare.count("{") - bare.count("}")
        if skip_depth is not None:
            if depth <= skip_depth:
                skip_depth = None
            continue
        if depth_before == 1 and re.match(r"^\s*(pub(\([^)]*\))?\s+)?(use|extern\s+crate|macro_rules!)\b", bare) and "enum_tools::EnumTools" not in l:
            uses.append(l.strip())
        mi = IMPL_RE.match(l)
        if mi and l.lstrip().startswith(("impl", "unsafe impl")):
            impls.append((mi.group(1).strip(), mi.group(2).strip()))
            continue
        m = ITEM_RE.match(l)
        if m:
            vis, kind, name = m.group(1), m.group(2), m.group(3)
            if kind == "enum" and name == ident:
                continue
            v = vis.strip().replace(" ", "") if vis else ""
            if v in ("pub(self)", "pub(inself)"):
                v = ""                      # equivalent to private
            (pub if v else priv).append((vis.strip() if v else "", kind, name))
    scan_surface.last_uses = uses
    return pub, impls, priv


def run_case(case):
    out = J.Outcome()
    spec, cfg, erank = case["spec"], case["cfg"], case["enum_rank"]
    items = item_table(spec, cfg, erank)
    ident = spec["ident"]
    # ---- (1) positive probe: all allowed accesses
    pos = {}
    neg_assoc = {}
    neg_struct = {}
    for loc, lrank, prefix in LOCS:
        for kind, fn, name, rank, tmpl in items:
            line = tmpl.replace("{P}", prefix)
            nameable_enum = lrank <= erank
            if kind == "assoc":
                if not nameable_enum:
                    continue
                if lrank <= rank:
                    pos.setdefault(loc, []).append(line)
                else:
                    neg_assoc.setdefault(loc, []).append(line)
            else:
                if lrank <= rank:
                    pos.setdefault(loc, []).append(line)
                else:
                    neg_struct.setdefault(loc, []).append(line)
    src = crate_text(spec, cfg, pos)
    c = build.rustc(src, mode="check", crate_name="lib0")
    out.count("positive_accesses", sum(len(v) for k, v in pos.items() if k != "extern"))
    if not c.ok:
        out.violate("a requested item is not usable under its requested name/visibility (positive probe fails)",
                    stderr=J.short_err(c.stderr), config=J.cfg_text(cfg), enum_vis=spec["vis"])
        out.fingerprint = J.fp(spec["vis"], ident, J.cfg_text(cfg))
        return out
    # ---- (2) negative probes, in-crate
    # `E::into(..)` / `E::try_from(..)` fall back to the prelude traits when the inherent item is private, and rustc
    # de-duplicates the resulting trait-bound errors: those lines are compiled one at a time and must simply fail
    def shadowed(line):
        return "::into(" in line or "::try_from(" in line or ("::%s(" % E.item_name(cfg, "range")) in line
    for loc in list(neg_assoc):
        iso = [l for l in neg_assoc[loc] if shadowed(l)]
        neg_assoc[loc] = [l for l in neg_assoc[loc] if not shadowed(l)]
        # with the trait form enabled the fallback is legitimate: `E::into(v)` is then `Into::into`
        iso = [l for l in iso if not (("::into(" in l and E.enabled(cfg, "Into") and E.item_name(cfg, "into") == "into") or
                                      ("::try_from(" in l and E.enabled(cfg, "TryFrom") and E.item_name(cfg, "try_from") == "try_from"))]
        for l in iso:
            out.count("negative_accesses_isolated")
            if loc == "extern":
                continue        # handled with the cross-crate client below
            ic = build.rustc(crate_text(spec, cfg, {loc: [l]}), mode="check", crate_name="lib0")
            if ic.ok:
                out.violate("an item is reachable from a place its requested visibility forbids (compiles)",
                            line=l, enum_vis=spec["vis"], config=J.cfg_text(cfg))
        if loc == "extern":
            neg_assoc.setdefault("extern_isolated", []).extend(iso)
    for loc, _lr, _pf in LOCS:
        if loc == "extern":
            continue
        lines_here = neg_assoc.get(loc, []) + neg_struct.get(loc, [])
        if not lines_here:
            continue
        # one compile per location: rustc de-duplicates identical privacy diagnostics across locations
        nsrc = crate_text(spec, cfg, {loc: lines_here})
        nc = build.rustc(nsrc, mode="check", crate_name="lib0", extra=("--error-format=json",))
        errs = error_lines(nc.stderr)
        src_lines = nsrc.split("\n")
        want = set()
        for l in lines_here:
            want.update(i + 1 for i, sl in enumerate(src_lines) if sl.strip() == l.strip())
        out.count("negative_accesses", len(lines_here))
        for ln in sorted(want):
            if not any(is_privacy(c_, m_) for c_, m_ in errs.get(ln, [])):
                out.violate("an item is reachable from a place its requested visibility forbids (no privacy error)",
                            line=src_lines[ln - 1].strip(), location=loc, errors_on_line=errs.get(ln, []), enum_vis=spec["vis"],
                            config=J.cfg_text(cfg))
        for ln, es in errs.items():
            if ln not in want:
                raise build.InfraError("unexpected error in negative probe line %d: %r\n%s" % (ln, es, src_lines[ln - 1]))
    # ---- cross-crate
    if erank == 3:
        lib = build.rustc(crate_text(spec, cfg, {}), mode="rlib", crate_name="lib0")
        if not lib.ok:
            raise build.InfraError("rlib build failed though check passed: " + J.short_err(lib.stderr))
        p_lines = pos.get("extern", [])
        if p_lines:
            psrc = E.HEADER + "extern crate lib0;\npub fn ext() {\n" + "\n".join(p_lines) + "\n}\n"
            pc = build.rustc(psrc, mode="check", crate_name="client", externs={"lib0": lib.path})
            out.count("positive_accesses_cross_crate", len(p_lines))
            if not pc.ok:
                out.violate("a pub item of a pub enum is not usable from another crate", stderr=J.short_err(pc.stderr),
                            config=J.cfg_text(cfg))
        for l in neg_assoc.get("extern_isolated", []):
            isrc = E.HEADER + "extern crate lib0;\npub fn ext() {\n" + l + "\n}\n"
            ic = build.rustc(isrc, mode="check", crate_name="client", externs={"lib0": lib.path})
            if ic.ok:
                out.violate("a non-pub item is reachable from another crate (compiles)", line=l, config=J.cfg_text(cfg))
        for group in (neg_assoc.get("extern", []), neg_struct.get("extern", [])):
            if not group:
                continue
            nsrc = E.HEADER + "extern crate lib0;\npub fn ext() {\n" + "\n".join(group) + "\n}\n"
            nc = build.rustc(nsrc, mode="check", crate_name="client", externs={"lib0": lib.path}, extra=("--error-format=json",))
            errs = error_lines(nc.stderr)
            src_lines = nsrc.split("\n")
            out.count("negative_accesses_cross_crate", len(group))
            for l in group:
                lns = [i + 1 for i, sl in enumerate(src_lines) if sl.strip() == l.strip()]
                if not any(is_privacy(c_, m_) for ln in lns for c_, m_ in errs.get(ln, [])):
                    out.violate("a non-pub item is reachable from another crate (no privacy error)", line=l,
                                config=J.cfg_text(cfg), enum_vis=spec["vis"])
        build.drop(lib)
    # ---- (3) surface scan of the expansion
    ex = build.rustc(crate_text(spec, cfg, {}, bare=True), mode="expand", crate_name="lib0")
    if not ex.ok:
        raise build.InfraError("expansion failed: " + J.short_err(ex.stderr))
    pub, impls, priv = scan_surface(build.expanded_text(ex), ident)
    for u in getattr(scan_surface, "last_uses", []):
        out.violate("the derive adds a module-level import / macro to the user's module (nothing else may be added to the surface)",
                    item=u, config=J.cfg_text(cfg))
    exp_items, exp_impls = expected_surface(spec, cfg)
    # a struct and an associated fn / const may share a name (different namespaces): key by (class, name)
    klass = lambda kind: "struct" if kind == "struct" else "assoc"
    vis_of = {}
    for kind, fn, name, rank, _t in items:
        f = E.feat(cfg, fn)
        v = E.param(f, "vis", None)
        vis_of[(kind, name)] = spec["vis"] if v is None else v
    for vis, kind, name in pub:
        if kind in ("mod",):
            continue
        want = vis_of.get((klass(kind), name))
        if name not in exp_items:
            out.violate("the derive adds a non-private item the user did not request (helper leaked / extra surface)",
                        item="%s %s %s" % (vis, kind, name), config=J.cfg_text(cfg), enum_vis=spec["vis"])
        elif want is not None and vis.replace(" ", "") != want.replace(" ", ""):
            out.violate("an item was generated with a visibility other than the requested one",
                        item="%s %s %s" % (vis, kind, name), requested=want, config=J.cfg_text(cfg))
    found_names = {name for _v, _k, name in pub} | {name for _v, _k, name in priv}
    for name in exp_items:
        if name not in found_names:
            out.violate("a requested item is missing from the expansion", item=name, config=J.cfg_text(cfg))
    for (kl, name), want in vis_of.items():
        # requested private visibility ("" on a non-private enum) must really be private
        if want == "" and any(n == name and klass(k_) == kl for _v, k_, n in pub):
            out.violate("an item requested with vis = \"\" was generated non-private", item=name)
    norm = lambda s: s.replace(" ", "")
    exp_norm = {(norm(a), norm(b)) for a, b in exp_impls}
    surface_types = {norm(ident), norm(spec["repr"]), norm("&'static str")} | {norm(E.struct_name(cfg, spec, w)) for w in ("iter", "names") if E.enabled(cfg, w)}
    for a, b in impls:
        if norm(b) not in surface_types and norm(ident) not in re.split(r"[^\w]+", norm(a)):
            continue                        # an impl for a private helper type is not part of the public surface
        if (norm(a), norm(b)) not in exp_norm:
            out.violate("the derive adds a trait impl the user did not request", impl="%s for %s" % (a, b), config=J.cfg_text(cfg))
    got_norm = {(norm(a), norm(b)) for a, b in impls}
    for a, b in exp_impls:
        if (norm(a), norm(b)) not in got_norm:
            out.violate("a requested trait impl is missing from the expansion", impl="%s for %s" % (a, b), config=J.cfg_text(cfg))
    helpers = [n for _v, _k, n in priv if n not in exp_items]
    out.count("helper_items_seen", len(helpers))
    out.count("surface_items_checked", len(pub) + len(impls))
    out.label("enum_vis", spec["vis"] or "(private)")
    out.label("ident", ident)
    custom = any(k in ("name", "vis", "struct_name") for f in cfg["feats"] for k, _v in f["params"])
    out.label("custom_params", custom)
    out.label("helpers_pulled_in", bool(helpers))
    out.nontrivial = custom or bool(helpers)
    out.fingerprint = J.fp(spec["vis"], ident, J.cfg_text(cfg), M.RefEnum(spec).gapless)
    out.sample = {"enum_vis": spec["vis"], "ident": ident, "config": J.cfg_text(cfg),
                  "positive_probe_head": [("%s: %s" % (k, l)) for k, v in pos.items() for l in v][:5],
                  "negative_probe_head": [("%s: %s" % (k, l)) for k, v in list(neg_assoc.items()) + list(neg_struct.items()) for l in v][:5],
                  "helpers": helpers[:6]}
    return out
