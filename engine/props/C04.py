"""C04 - from_str / FromStr accept exactly the variant names and invert as_str."""
import random

from hypothesis import strategies as st

from .. import emit as E
from .. import judge as J
from .. import model as M
from .. import strategies as S
from . import common as C

ID = "C04"
TIERS = {"quick": 960, "thorough": 14000}
RULE = ("case = generated enum with renames and (at a controlled rate) duplicate names x 2-4 configuration variants "
        "of the same declaration in one probe (from_str and FromStr each in match / table / auto resolving both ways, "
        "mixed modes, with table-mode iter sharing the enum table) with random co-features; strings = every name "
        "(sampled above 48), every variant identifier, single-edit neighbours (delete/insert/substitute/transpose), case "
        "flips, surrounding whitespace, prefixes/suffixes, the empty string and Hypothesis text. Oracle = model: success "
        "iff s is a name, result's name == s; with duplicate names every implementation must pick the same variant. "
        "non-trivial = a table-mode module with MIN != 0 or holes, or duplicate names, or a near-miss string within one "
        "edit of a name; distinct by (repr, discriminants, names, module set)")

PROFILE = S.profile(renames=0.6, dups=0.2, sizes=[("small", 75), ("medium", 12), ("large", 10), ("full8", 3)])

VARIANTS = [
    ("match", {"from_str": [["mode", "match"]], "FromStr": [["mode", "match"]], "as_str": [["mode", "match"]]}),
    ("table", {"from_str": [["mode", "table"]], "FromStr": [["mode", "table"]], "as_str": [["mode", "table"]]}),
    ("fn_auto_alone", {"from_str": []}),
    ("trait_auto_alone", {"FromStr": [["mode", "auto"]]}),
    ("all_auto", {"from_str": [], "FromStr": [], "as_str": []}),
    ("mixed_a", {"from_str": [["mode", "table"]], "FromStr": [["mode", "match"]]}),
    ("mixed_b", {"from_str": [["mode", "match"]], "FromStr": [["mode", "table"]], "iter": [["mode", "table"]]}),
    ("auto_names", {"from_str": [], "names": []}),
]
STRING_FEATS = ("as_str", "Debug", "Display", "IntoStr", "names", "from_str", "FromStr", "iter", "range")


@st.composite
def cases(draw, tier="quick"):
    spec = draw(S.enum_specs(PROFILE))
    base = draw(S.configs(spec, forbid=STRING_FEATS, p_on=0.25, split=False, p_sorted=0.3))
    mods = draw(st.lists(st.sampled_from(range(len(VARIANTS))), min_size=2, max_size=4, unique=True))
    extra = draw(st.lists(st.text(max_size=8), max_size=6))
    return {"spec": spec, "base": base, "mods": sorted(mods), "extra": extra, "seed": draw(st.integers(0, 2 ** 31))}


def fixed_cases(tier):
    """Name-table matrix: total name bytes on / next to 2^8 and 2^16, every name parsed by every mode."""
    out = []
    for spec in C.name_table_specs():
        out.append({"spec": spec, "base": {"feats": [], "groups": [], "pos": []}, "mods": [0, 1, 4], "extra": [], "seed": 1, "all_names": True})
    for spec in C.zero_first_specs():
        out.append({"spec": spec, "base": {"feats": [], "groups": [], "pos": []}, "mods": [0, 1, 4], "extra": [], "seed": 3, "all_names": True})
    # strings that collide with a name under common 32-bit string hashes (tools/gen_collisions.py): a parser that
    # dispatches on a hash must still compare the text
    import json
    import os
    with open(os.path.join(os.path.dirname(os.path.dirname(os.path.abspath(__file__))), "data", "hash_collisions.json")) as f:
        hc = json.load(f)
    extra = sorted({c for lst in hc["collisions"].values() for nm, c in lst if nm in hc["names"] and c not in hc["names"] and len(c) == len(nm)})
    spec = {"repr": "u8", "vis": "pub", "ident": "E", "enum_attrs": [],
            "variants": [{"ident": nm, "disc": None} for nm in hc["names"]]}
    out.append({"spec": spec, "base": {"feats": [], "groups": [], "pos": []}, "mods": [0, 1, 2, 3, 4], "extra": extra, "seed": 2, "all_names": True})
    return out


def run_case(case):
    out = J.Outcome()
    spec = case["spec"]
    m = M.RefEnum(spec)
    rnd = J.case_rng(case)
    strings = C.near_miss_strings(m, rnd)
    names = list(dict.fromkeys(m.names))
    if len(names) > 48 and not case.get("all_names"):
        names = rnd.sample(names, 48)
    # script arguments are space-separated hex, any text is fine; surrogates cannot occur in st.text()
    strings = sorted(set(strings) | set(names) | set(case["extra"]))
    sc = E.Script()
    modules = []
    table_like = False
    for k, vi in enumerate(case["mods"]):
        name, ov = VARIANTS[vi]
        cfg = C.with_feats(case["base"], ov)
        modules.append((spec, cfg, {"kind": "plain"}))
        C.sc_from_str(sc, k, m, cfg, strings)
        out.count("module_" + name)
        if name in ("table", "all_auto", "mixed_a", "mixed_b", "auto_names"):
            table_like = True
    obs = J.run_script(out, modules, sc)
    # duplicate names: the same variant from every implementation
    if obs is not None and m.has_duplicate_names():
        per = {}
        for line, o in zip(sc.lines, obs):
            s = line.split(" ")[2]
            per.setdefault(s, set()).add(o)
        for s, results in per.items():
            if len(results) > 1 and not any(r.startswith("PANIC") for r in results):
                out.violate("implementations disagree on which variant a duplicated name parses to",
                            string=M.unhexs(s), results=sorted(results))
    C.std_labels(out, m)
    out.label("duplicate_names", m.has_duplicate_names())
    out.count("parse_calls", len(sc.lines))
    out.count("strings_that_are_names", sum(1 for s in strings if m.from_str_candidates(s)))
    out.count("strings_rejected", sum(1 for s in strings if not m.from_str_candidates(s)))
    out.nontrivial = (table_like and (not m.gapless or m.min != 0)) or m.has_duplicate_names() or len(strings) > len(names) + 1
    out.fingerprint = J.fp(m.repr, m.sorted_values if m.n <= 64 else [m.n, m.runs[:20]], sorted(m.names)[:64], case["mods"])
    out.sample = {"spec": J.abridge_spec(spec), "modules": [VARIANTS[v][0] for v in case["mods"]],
                  "strings_head": strings[:8], "script_head": sc.lines[:4], "expected_head": [str(e) for e in sc.expected[:4]]}
    return out
