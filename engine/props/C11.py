"""C11 - enums in the documented domain are accepted with the compiler's discriminants."""
import random

from hypothesis import strategies as st

from .. import emit as E
from .. import judge as J
from .. import model as M
from .. import strategies as S
from . import common as C

ID = "C11"
TIERS = {"quick": 1440, "thorough": 20000}
RULE = ("case = generated declaration in 'syntax' emphasis: every repr, literal spellings (decimal, hex, octal, "
        "binary, digit separators, leading zeros, matching type suffix, `-` with and without space, -0), mixed "
        "implicit/explicit discriminants, values at i64::MIN / i64::MAX and at the repr limits, cfg'd-out variants, "
        "foreign attributes and doc comments on enum and variants, rename through cfg_attr; light feature set "
        "(into, try_from, iter, Into, TryFrom forced; others random). Oracle: compiles, and for every variant "
        "(sampled above 64) `v as repr` (the compiler's value) == model value == into(v); try_from(value) gives it "
        "back; iter() order == model order. Fixed cases: i64::MIN/i64::MAX literals on i64/i128, u64/u128 at i64::MAX, "
        "type-MIN runs with offset tables, a 3000-variant enum (quick) and 65534 variants gapless u16 / one-hole u32 "
        "(thorough). non-trivial = non-decimal or suffixed or negative literal, or mixed implicit/explicit, or an "
        "i64/repr limit touched; distinct by (repr, declaration text)")
ASSUMPTIONS = ["out of the stated domain and not generated: discriminants arriving through macro_rules expr/literal "
               "fragments, values outside the repr type under allow(overflowing_literals), raw identifiers"]

PROFILE = S.profile(renames=0.15, dups=0.0, attrs=0.6, cfg_off=0.15, literals="mixed",
                    anchors=["min", "min", "max", "max", "zero", "neg", "rand", "narrow_max", "narrow_min"],
                    sizes=[("small", 80), ("medium", 12), ("large", 7), ("full8", 1)])


@st.composite
def cases(draw, tier="quick"):
    spec = draw(S.enum_specs(PROFILE))
    cfg = draw(S.configs(spec, force=("into", "try_from", "iter", "Into", "TryFrom"), p_on=0.15))
    return {"spec": spec, "cfg": cfg, "seed": draw(st.integers(0, 2 ** 31))}


def _lit(v):
    return str(v)


def fixed_cases(tier):
    out = []

    def mk(repr_, vals, feats=("into", "try_from", "iter", "Into", "TryFrom", "next", "next_back", "MIN", "MAX"), modes=None, discs=None):
        vs = []
        for i, v in enumerate(vals):
            vs.append({"ident": "V%d" % i, "disc": (discs[i] if discs else _lit(v))})
        return {"spec": {"repr": repr_, "vis": "pub", "ident": "E", "enum_attrs": [], "variants": vs},
                "cfg": S.simple_config(list(feats), modes or {}), "seed": 1}
    I64MIN, I64MAX = -2 ** 63, 2 ** 63 - 1
    for r in ("i64", "i128"):
        out.append(mk(r, [I64MIN, I64MIN + 1, 0, I64MAX - 1, I64MAX]))
        out.append(mk(r, [I64MIN, I64MAX], discs=["-0x8000_0000_0000_0000", "0x7fff_ffff_ffff_ffff"]))
        out.append(mk(r, [I64MIN, -5, 7], feats=("as_str", "iter", "range", "into", "try_from"), modes={"as_str": "table"}))
        out.append(mk(r, [I64MAX - 1, I64MAX], discs=[_lit(I64MAX - 1), None]))
    for r in ("u64", "u128"):
        out.append(mk(r, [0, I64MAX - 1, I64MAX]))
    # declaration order that wraps around the i64 range: MAX immediately followed by an explicit MIN, other steps +1
    for r in ("i64", "i128", "isize"):
        out.append(mk(r, [I64MAX - 1, I64MAX, I64MIN, I64MIN + 1], discs=[_lit(I64MAX - 1), None, _lit(I64MIN), None]))
        out.append(mk(r, [I64MAX, I64MIN]))
    for r in ("i8", "i16", "i32"):
        lo, hi = M.repr_range(r)
        out.append(mk(r, [hi - 1, hi, lo, lo + 1], discs=[_lit(hi - 1), None, _lit(lo), None]))
    for r in ("i8", "i16", "i32", "isize"):
        lo, hi = M.repr_range(r)
        out.append(mk(r, [lo, lo + 1, -3, -2, 4, hi], feats=("as_str", "iter", "range", "into", "try_from", "next", "next_back"),
                      modes={"as_str": "table", "iter": "table"}))
    # the type's own minimum spelled with separators, radix prefixes and a type suffix
    for r in ("i8", "i16", "i32", "i64", "i128", "isize"):
        lo, hi = M.repr_range(r)
        if lo < I64MIN:
            lo = I64MIN
        a = abs(lo)
        spell = ["-%d%s" % (a, r), "-%s_%s" % ("{:_}".format(a), r), "-0x%s_%s" % ("{:_x}".format(a), r), "-0b%s%s" % (bin(a)[2:], r), "-0o%o_%s" % (a, r)]
        for sp in spell:
            if r == "isize" and False:
                continue
            out.append(mk(r, [lo, lo + 1, 5], discs=[sp, None, "5"]))
        out.append(mk(r, [lo, lo + 1, lo + 9, -1, 0], discs=[spell[0], None, _lit(lo + 9), "-1%s" % r, None],
                      feats=("as_str", "iter", "range", "into", "try_from", "next", "next_back", "MIN", "MAX"), modes={"as_str": "table", "iter": "table"}))
    # declarations that start with implicit variants and continue below zero
    for spec in C.zero_first_specs():
        out.append({"spec": spec, "cfg": S.simple_config(["into", "try_from", "iter", "range", "next", "next_back", "as_str", "from_str", "FromStr", "MIN", "MAX"],
                                                         {"as_str": "table", "from_str": "table", "FromStr": "table"}), "seed": 10})
    # run-length matrix (runs of 63/64/65/127/128/129/255/256/257 values)
    for spec in C.run_length_specs():
        out.append({"spec": spec, "cfg": S.simple_config(["into", "try_from", "iter", "range", "next", "next_back", "as_str", "from_str"]), "seed": 8})
    # 8-bit size matrix (half-full, nearly full and full reprs, gapless and with holes) with table features on
    from . import C10
    for c in C10.fixed_cases("quick"):
        if "spec" in c and c.get("seed") == 9:
            out.append({"spec": c["spec"], "cfg": c["cfg"], "seed": 9})
    big = 3000
    out.append({"spec": {"repr": "u16", "vis": "pub", "ident": "E", "enum_attrs": [],
                         "variants": [{"ident": "V%d" % i, "disc": None} for i in range(big)]},
                "cfg": S.simple_config(["into", "try_from", "iter"]), "seed": 2})
    # the documented maximum of 65534 variants: accepted (check-only compile, 7 s); built and run in thorough
    out.append({"spec": {"repr": "u16", "vis": "pub", "ident": "E", "enum_attrs": [],
                         "variants": [{"ident": "V%d" % i, "disc": None} for i in range(65534)]},
                "cfg": S.simple_config(["into", "try_from", "iter"]), "seed": 5, "accept_only": True})
    out.append({"spec": {"repr": "i32", "vis": "pub", "ident": "E", "enum_attrs": [],
                         "variants": [{"ident": "V%d" % i, "disc": ("-7" if i == 0 else "100000" if i == 60000 else None)} for i in range(65534)]},
                "cfg": S.simple_config(["into", "MIN", "MAX"]), "seed": 6, "accept_only": True})
    if tier == "thorough":
        # more than 32768 variants on a 16-bit signed repr: table indexes beyond i16::MAX
        out.append({"spec": {"repr": "i16", "vis": "pub", "ident": "E", "enum_attrs": [],
                             "variants": [{"ident": "V%d" % i, "disc": ("-16500" if i == 0 else None)} for i in range(33000)]},
                    "cfg": S.simple_config(["into", "try_from", "iter", "range", "as_str", "next", "next_back"], {"as_str": "table", "iter": "table"}), "seed": 7})
        out.append({"spec": {"repr": "u16", "vis": "pub", "ident": "E", "enum_attrs": [],
                             "variants": [{"ident": "V%d" % i, "disc": None} for i in range(65534)]},
                    "cfg": S.simple_config(["into", "try_from", "iter"]), "seed": 3})
        out.append({"spec": {"repr": "u32", "vis": "pub", "ident": "E", "enum_attrs": [],
                             "variants": [{"ident": "V%d" % i, "disc": ("70000" if i == 40000 else None)} for i in range(65534)]},
                    "cfg": S.simple_config(["into", "try_from", "iter"]), "seed": 4})
    return out


def syntax_labels(spec):
    kinds = set()
    for v in spec["variants"]:
        d = v.get("disc")
        if v.get("cfg_off"):
            kinds.add("cfg_off")
        if d is None:
            kinds.add("implicit")
            continue
        kinds.add("explicit")
        t = d.replace(" ", "")
        if t.startswith("-"):
            kinds.add("negative")
            t = t[1:]
        if t[:2] in ("0x", "0X"):
            kinds.add("hex")
        elif t[:2] in ("0o",):
            kinds.add("oct")
        elif t[:2] in ("0b",):
            kinds.add("bin")
        if "_" in t:
            kinds.add("separators")
        if t.endswith(tuple(M.REPRS)) and not t[:2] in ("0x", "0X"):
            kinds.add("suffix")
        elif t[:2] in ("0x", "0X") and t.endswith(tuple(M.REPRS)) and ("i" in t or "u" in t):
            kinds.add("suffix")
    return kinds


def run_case(case):
    out = J.Outcome()
    spec, cfg = case["spec"], case["cfg"]
    m = M.RefEnum(spec)
    assert m.in_domain(), "generator produced an out-of-domain enum"
    rnd = J.case_rng(case)
    if case.get("accept_only"):
        ok, err = J.accepts(E.enum_item_text(spec, cfg))
        if not ok:
            out.violate("an enum inside the documented domain is rejected", stderr=J.short_err(err), variants=m.n, repr=m.repr)
        out.label("size", "65534")
        out.nontrivial = True
        out.fingerprint = J.fp("accept_only", m.repr, m.n, J.cfg_text(cfg))
        out.sample = {"accept_only": True, "variants": m.n, "repr": m.repr, "config": J.cfg_text(cfg)}
        return out
    sc = E.Script()
    idxs = C.pick_idxs(m, rnd)
    C.sc_cast(sc, 0, m, idxs)
    C.sc_into(sc, 0, m, cfg, idxs)
    C.sc_try_from(sc, 0, m, cfg, [m.values[i] for i in idxs], sweep=(m.n <= 4000))
    if m.n <= 4000:
        C.sc_iter(sc, 0, m, cfg, [["l", "collect"]], ref=False)
    else:
        C.sc_iter(sc, 0, m, cfg, [["l", "n", "b", "nth:1000", "last"]], ref=False)
    C.sc_next(sc, 0, m, cfg, idxs[:16], walks=(m.n <= 4000))
    C.sc_minmax(sc, 0, m, cfg)
    J.run_script(out, [(spec, cfg, {"kind": "plain"})], sc)
    C.std_labels(out, m)
    kinds = syntax_labels(spec)
    for kd in sorted(kinds):
        out.count("syntax_" + kd)
    lo64, hi64 = M.I64_MIN, M.I64_MAX
    limits = m.min == lo64 or m.max == hi64 or m.min == m.lo or m.max == m.hi
    out.label("touches_i64_limit", m.min == lo64 or m.max == hi64)
    out.label("foreign_attrs", bool(spec.get("enum_attrs")) or any(v.get("attrs") for v in spec["variants"]))
    out.nontrivial = bool(kinds & {"hex", "oct", "bin", "separators", "suffix", "negative", "cfg_off"}) or \
        ({"implicit", "explicit"} <= kinds) or limits
    out.fingerprint = J.fp(spec["repr"], [(v["ident"], v.get("disc")) for v in spec["variants"][:200]], len(spec["variants"]))
    out.sample = {"declaration": E.enum_item_text(dict(spec, variants=spec["variants"][:10]), cfg).split("\n")[:30],
                  "model_values_head": m.values[:8]}
    return out
