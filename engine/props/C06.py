"""C06 - iter() is a double-ended exact-size fused iterator over all variants ascending."""
import random

from hypothesis import strategies as st

from .. import emit as E
from .. import judge as J
from .. import model as M
from .. import strategies as S
from . import common as C

ID = "C06"
TIERS = {"quick": 800, "thorough": 12000}
HISTS = {"quick": 20, "thorough": 56}
RULE = ("case = generated enum x one module per legal iterator mode in one probe (gapless: range, next_and_back, "
        "table, table_inline, auto; with holes: next_and_back, table, table_inline and auto under co-features that steer "
        "auto to each of its outcomes) x the same set of histories for every mode: 4 Hypothesis-drawn (shrinkable) plus "
        "20 (quick) / 56 (thorough) PRNG histories over {next, next_back, nth(k), nth_back(k), len, size_hint} with k "
        "biased to {0,1,2,len/2,len-1,len,len+1}, continuing after the first None, then a finisher from {collect, rev, "
        "fold, rfold, last, count, len, for_each, rev.fold, skip.last, step_by}. Two oracles: Python two-cursor list "
        "model and in-probe std::vec::IntoIter over the model-ordered list. non-trivial = a history with at least one "
        "front and one back operation on an enum with >= 2 variants; distinct by (repr, discriminants, order, modes)")

PROFILE = S.profile(renames=0.05, dups=0.0, attrs=0.1, sizes=[("small", 80), ("medium", 10), ("large", 5), ("full8", 5)])


def mode_variants(m):
    if m.gapless:
        return [("range", {"iter": [["mode", "range"]]}),
                ("next_and_back", {"iter": [["mode", "next_and_back"]]}),
                ("table", {"iter": [["mode", "table"]]}),
                ("table_inline", {"iter": [["mode", "table_inline"]], "range": None}),
                ("auto", {"iter": []})]
    return [("next_and_back", {"iter": [["mode", "next_and_back"]]}),
            ("table", {"iter": [["mode", "table"]]}),
            ("table_inline", {"iter": [["mode", "table_inline"]], "range": None}),
            ("auto", {"iter": [["mode", "auto"]], "from_str": None, "FromStr": None, "range": None}),
            ("auto+parser_table", {"iter": [], "from_str": [["mode", "table"]]}),
            ("auto+range", {"iter": [], "range": []})]


@st.composite
def cases(draw, tier="quick"):
    spec = draw(S.enum_specs(PROFILE))
    base = draw(S.configs(spec, forbid=("iter",), p_on=0.2, split=False, p_sorted=0.15))
    m = M.RefEnum(spec)
    hists = draw(st.lists(S.histories(m.n), min_size=1, max_size=4))
    return {"spec": spec, "base": base, "hists": hists, "nrand": HISTS.get(tier, 20),
            "derive_ord": S.chance(draw, 0.3), "seed": draw(st.integers(0, 2 ** 31))}


def fixed_cases(tier):
    """Run-length matrix (runs of 1 / 63 ... 257 values) and run-count matrix, with histories that cross the run
    boundary from both ends one step at a time and in one jump."""
    out = []
    specs = C.run_length_specs({(1, 64), (63, 64), (64, 64), (65, 64), (64, 1), (65, 65), (127, 128), (128, 128), (129, 63), (255, 1), (256, 63), (257, 65), (2, 128)}) + C.run_count_specs([16, 17, 64, 65, 128, 129, 255, 256, 257])
    for spec in specs:
        m = M.RefEnum(spec)
        n = m.n
        sv = m.sorted_values
        cut = next(i for i in range(1, n) if sv[i] != sv[i - 1] + 1)
        hists = [["collect"], ["rev"], ["l", "nth:%d" % max(0, cut - 2), "n", "n", "n", "l", "collect"],
                 ["nthb:%d" % max(0, n - cut - 2), "b", "b", "b", "l", "rev"], ["nth:%d" % cut, "nthb:%d" % max(0, n - cut - 3), "l", "collect"],
                 ["nth:%d" % (cut - 1), "l", "b", "fold"], ["nthb:%d" % (n - cut - 1), "l", "n", "rfold"]]
        out.append({"spec": spec, "base": S.simple_config([]), "hists": hists, "nrand": 6, "derive_ord": False, "seed": 1})
    return out


def run_case(case):
    out = J.Outcome()
    spec = dict(case["spec"])
    if case.get("derive_ord"):
        spec["derive_ord"] = True       # the user additionally derives Ord: max()/min() directly on the iterator
    m = M.RefEnum(spec)
    rnd = J.case_rng(case)
    hists = [list(h) for h in case["hists"]] + [C.rand_history(rnd, m.n, ord_ok=bool(case.get("derive_ord"))) for _ in range(case["nrand"])]
    sc = E.Script()
    modules = []
    for k, (name, ov) in enumerate(mode_variants(m)):
        drop = [f for f, ps in ov.items() if ps is None]
        cfg = C.with_feats(case["base"], {f: ps for f, ps in ov.items() if ps is not None}, drop=drop)
        modules.append((spec, cfg, {"kind": "plain"}))
        C.sc_iter(sc, k, m, cfg, hists, ref=(k == 0))
        out.count("mode_" + name)
    J.run_script(out, modules, sc)
    C.std_labels(out, m)
    two = 0
    for h in hists:
        hl = S.history_labels(h, m.n)
        for kk, v in hl.items():
            if v:
                out.count("hist_" + kk)
        two += 1 if hl["two_sided"] else 0
    out.count("histories", len(hists) * len(modules))
    out.nontrivial = m.n >= 2 and two > 0
    out.fingerprint = J.fp(m.repr, m.values if m.n <= 64 else [m.n, m.runs[:20]], J.cfg_text(case["base"]))
    out.sample = {"spec": J.abridge_spec(spec), "modes": [n for n, _ in mode_variants(m)],
                  "base_config": J.cfg_text(case["base"]), "histories_head": [" ".join(h) for h in hists[:3]],
                  "expected_head": [M.run_iter_model(m.sorted_values, h, str)[:160] for h in hists[:3]]}
    return out
