"""C12 - declarations outside the supported domain never compile."""
import random

from hypothesis import strategies as st

from .. import emit as E
from .. import judge as J
from .. import model as M
from .. import mutate as MU
from .. import strategies as S

ID = "C12"
TIERS = {"quick": 1440, "thorough": 24000}
RULE = ("case = a legal generated (declaration, configuration), verified to compile, plus exactly one operator from "
        "the out-of-domain grammar: struct / tuple struct / union instead of an enum; zero variants; a variant with (), "
        "{}, (T), {f:T}; a discriminant replaced by a same-valued non-literal expression (const path, associated const, "
        "arithmetic, cast, parenthesised, doubly negated, -(n), !n, block, const block, if, index, tuple field, method "
        "call, macro call) or by a byte / char-cast / bool-cast / float / string / bool literal; a value beyond the i64 "
        "range on u64/u128/i128; the implicit successor of i64::MAX; repr missing, duplicated, two different, C, "
        "(C, int), transparent, align only, Rust, non-integer, path, string, empty; fixed cases with 65535 / 65536 / 70000 "
        "variants (thorough; 65535 also quick). Oracle: rustc must exit non-zero. non-trivial = the control (same item "
        "without the EnumTools derive and enum_tools attributes) compiles, i.e. the derive is the only gatekeeper; "
        "distinct by (operator detail, mutated item text)")

PROFILE = S.profile(renames=0.1, dups=0.0, attrs=0.2, sizes=[("small", 97), ("medium", 3)], cfg_off=0.03)
PROFILE_WIDE = S.profile(renames=0.1, dups=0.0, attrs=0.2, sizes=[("small", 97), ("medium", 3)], cfg_off=0.0,
                         reprs=["u64", "u128", "i128", "usize"])


@st.composite
def cases(draw, tier="quick"):
    op = draw(st.sampled_from(MU.C12_OPS))
    prof = PROFILE_WIDE if op in ("beyond_i64", "implicit_after_i64max") else PROFILE
    spec = draw(S.enum_specs(prof))
    # sparse and empty feature sets matter here: with no feature naming the offending variant or value, the derive's own
    # validation is the only thing between the declaration and a successful build
    cfg = draw(S.configs(spec, p_on=[0.0, 0.08, 0.3, 0.3]))
    return {"spec": spec, "cfg": cfg, "op": op, "seed": draw(st.integers(0, 2 ** 31))}


def fixed_cases(tier):
    out = []
    sizes = [65535, 65537] if tier == "quick" else [65535, 65536, 65537, 70000, 131071]
    for n in sizes:
        for r in (["u16"] if n <= 65536 and tier == "quick" else ["u16", "i32"] if n <= 65536 else ["u32"]):
            out.append({"spec": {"repr": r, "vis": "pub", "ident": "E", "enum_attrs": [],
                                 "variants": [{"ident": "V%d" % i, "disc": None} for i in range(n)]},
                        "cfg": S.simple_config(["into"]), "op": "too_many", "seed": 0})
    return out


def build_mutant(case):
    rnd = J.case_rng(case)
    spec, cfg = case["spec"], case["cfg"]
    if case["op"] == "too_many":
        return spec, cfg, [], "too_many:%d" % len(spec["variants"])
    ops = [case["op"]] + ["nonliteral", "field_variant", "repr"]
    for op in ops:
        r = MU.c12_apply(op, spec, cfg, rnd)
        if r is not None:
            return r
    raise AssertionError("no operator applies")


def run_case(case):
    out = J.Outcome()
    spec, cfg = case["spec"], case["cfg"]
    s2, c2, ctx, detail = build_mutant(case)
    mutant = E.enum_item_text(s2, c2)
    control = E.enum_item_text(s2, c2, with_tools=False)
    if case["op"] != "too_many":
        base_ok, base_err = J.accepts(E.enum_item_text(spec, cfg))
        if not base_ok:
            # the un-mutated base is a legal derive: C10/C11 territory, not a C12 verdict
            raise J.build.InfraError("C12 base does not compile (belongs to C10/C11):\n" + J.short_err(base_err))
    ok, err = J.accepts(mutant, ctx)
    ctl_ok, _ = J.accepts(control, ctx)
    out.label("operator", detail.split(":")[0])
    out.label("detail", detail)
    out.label("control_compiles", ctl_ok)
    if ok:
        out.violate("an out-of-domain declaration was accepted by the derive", operator=detail,
                    item=mutant[:3000], context=ctx)
    else:
        out.label("diagnostic", "derive" if ("error: " in err and "proc-macro derive" not in err) else "rustc")
    out.nontrivial = ctl_ok
    out.fingerprint = J.fp(detail, mutant[:5000])
    out.sample = {"operator": detail, "context": ctx, "item": mutant.split("\n")[:16], "control_compiles": ctl_ok}
    return out
