"""C07 - range(a, b) is iter() restricted to a <= v <= b, empty when a > b, in every mode."""
import random

from hypothesis import strategies as st

from .. import emit as E
from .. import judge as J
from .. import model as M
from .. import strategies as S
from . import common as C

ID = "C07"
TIERS = {"quick": 800, "thorough": 12000}
RULE = ("case = generated enum x one module per iterator mode compatible with range in one probe (gapless: range, "
        "next_and_back, table, auto; with holes: next_and_back, table, auto, auto steered to table) x ordered pairs "
        "(a, b): all N^2 when N <= 8, else 64 constructed+sampled pairs always including a == b, adjacent, a > b by 1, "
        "a > b by >= 2, (MIN, MAX), (MAX, MIN), inside one run and across runs; every pair gets len first, a short "
        "history and a finisher; 3 Hypothesis-drawn (pair, history) triples shrink. A panic is a violation (the "
        "property says never panics). Two oracles as in C06. non-trivial = at least one pair other than (MIN, MAX); "
        "distinct by (repr, discriminants, order, base configuration)")

PROFILE = S.profile(renames=0.05, dups=0.0, attrs=0.1, sizes=[("small", 72), ("medium", 10), ("large", 15), ("full8", 3)],
                    anchors=["min", "max", "zero", "neg", "neg", "rand", "narrow_max", "narrow_min"])


def mode_variants(m):
    if m.gapless:
        return [("range", {"iter": [["mode", "range"]], "range": []}),
                ("next_and_back", {"iter": [["mode", "next_and_back"]], "range": []}),
                ("table", {"iter": [["mode", "table"]], "range": []}),
                ("auto", {"iter": [], "range": []})]
    return [("next_and_back", {"iter": [["mode", "next_and_back"]], "range": []}),
            ("table", {"iter": [["mode", "table"]], "range": []}),
            ("auto", {"iter": [["mode", "auto"]], "range": [], "from_str": None, "FromStr": None}),
            ("auto+parser_table", {"iter": [], "range": [], "FromStr": [["mode", "table"]]})]


@st.composite
def cases(draw, tier="quick"):
    spec = draw(S.enum_specs(PROFILE))
    base = draw(S.configs(spec, forbid=("iter", "range"), p_on=0.2, split=False, p_sorted=0.15))
    m = M.RefEnum(spec)
    trip = draw(st.lists(st.tuples(st.integers(0, m.n - 1), st.integers(0, m.n - 1), S.histories(m.n, max_len=8)),
                         min_size=1, max_size=3))
    return {"spec": spec, "base": base, "triples": [[a, b, list(h)] for a, b, h in trip],
            "derive_ord": S.chance(draw, 0.3), "seed": draw(st.integers(0, 2 ** 31))}


def fixed_cases(tier):
    """Regressions of repaired defects D2 (973e5ca: reversed range in table mode) and D1 (a02030d: negative later runs)."""
    out = []
    for r, vals in (("u8", [0, 1, 2, 3, 4, 5]), ("i8", [-10, -5, -4, 3, 4]), ("i16", [-32768, -32767, -2, -1, 6]), ("u64", [3, 4, 2 ** 40, 2 ** 40 + 1])):
        spec = {"repr": r, "vis": "pub", "ident": "E", "enum_attrs": [],
                "variants": [{"ident": "V%d" % i, "disc": str(v)} for i, v in enumerate(vals)]}
        n = len(vals)
        out.append({"spec": spec, "base": S.simple_config([]), "seed": 0,
                    "triples": [[a, b, ["l", "collect"]] for a in range(n) for b in range(n)]})
    for spec in C.run_count_specs([16, 17, 64, 65, 128, 129, 255, 256, 257]):
        out.append({"spec": spec, "base": S.simple_config([]), "seed": 0, "triples": [[0, 1, ["l"]]]})
    # span matrix: MAX - MIN on / next to a power of two with seven runs; last run crossing MIN + 2^8 / 2^16
    for spec in C.span_specs():
        n = len(spec["variants"])
        out.append({"spec": spec, "base": S.simple_config([]), "seed": 2,
                    "triples": [[a, b, ["l", "collect"]] for a in range(n) for b in range(n) if a in (0, 1, 2, n - 1) or b in (0, 5, n - 2, n - 1) or a == b]})
    for spec in C.structured_specs(("i8", "u8", "i64")):
        n = len(spec["variants"])
        out.append({"spec": spec, "base": S.simple_config([]), "seed": 4, "triples": [[a, b, ["l", "collect"]] for a in range(n) for b in range(n)]})
    # tied-run matrix (several runs tied for the greatest length; first == last == average with uneven middle runs)
    for spec in C.tied_run_specs():
        n = len(spec["variants"])
        if n <= 16:
            tr = [[a, b, ["l", "collect"]] for a in range(n) for b in range(n)]
        else:
            pts = sorted({0, 1, 2, 3, 4, 5, 6, n // 2, n // 2 + 1, n - 3, n - 2, n - 1})
            tr = [[a, b, ["l", "collect"]] for a in pts for b in pts]
        out.append({"spec": spec, "base": S.simple_config([]), "seed": 3, "triples": tr})
    # run-length matrix: end points at the run boundaries
    for spec in C.run_length_specs({(1, 64), (63, 64), (64, 64), (65, 64), (64, 1), (65, 65), (127, 128), (128, 128), (129, 63), (255, 1), (256, 63), (257, 65), (2, 128)}):
        vals = [int(v["disc"]) for v in spec["variants"]]
        n = len(vals)
        cut = next(i for i in range(1, n) if vals[i] != vals[i - 1] + 1)
        pts = sorted({0, 1, cut - 1, cut, cut + 1, n - 2, n - 1} & set(range(n)))
        out.append({"spec": spec, "base": S.simple_config([]), "seed": 1,
                    "triples": [[a, b, ["l", "collect"]] for a in pts for b in pts]})
    return out


def run_case(case):
    out = J.Outcome()
    spec = dict(case["spec"])
    if case.get("derive_ord"):
        spec["derive_ord"] = True
    m = M.RefEnum(spec)
    rnd = J.case_rng(case)
    triples = [(a, b, h) for a, b, h in case["triples"]]
    for (i, j) in C.all_pairs_or_sample(m, rnd):
        sub = len(m.range_values(i, j))
        triples.append((i, j, ["l"] + C.rand_history(rnd, sub, max_len=min(2 * sub + 2, 10), ord_ok=bool(case.get("derive_ord")))))
    sc = E.Script()
    modules = []
    for k, (name, ov) in enumerate(mode_variants(m)):
        drop = [f for f, ps in ov.items() if ps is None]
        cfg = C.with_feats(case["base"], {f: ps for f, ps in ov.items() if ps is not None}, drop=drop)
        modules.append((spec, cfg, {"kind": "plain"}))
        C.sc_range(sc, k, m, cfg, triples, ref=(k == 0))
        out.count("mode_" + name)
    J.run_script(out, modules, sc)
    C.std_labels(out, m)
    nontriv = 0
    for (i, j, _h) in triples:
        a, b = m.values[i], m.values[j]
        if a > b:
            out.count("pairs_reversed")
            if m.pos[i] - m.pos[j] >= 2:
                out.count("pairs_reversed_by_2_or_more")
        elif a == b:
            out.count("pairs_single")
        if not (a == m.min and b == m.max):
            nontriv += 1
        if not m.gapless and a < b and any(a <= e < b and True for (_b0, e) in m.runs[:-1] if a <= e and m.runs and e < b):
            out.count("pairs_crossing_a_hole")
    out.count("ranges", len(triples) * len(modules))
    out.label("over_255_variants_wide_repr", m.n > 255 and M.repr_bits(m.repr) >= 16)
    out.nontrivial = nontriv > 0
    out.fingerprint = J.fp(m.repr, m.values if m.n <= 64 else [m.n, m.runs[:20]], J.cfg_text(case["base"]))
    out.sample = {"spec": J.abridge_spec(spec), "modes": [n for n, _ in mode_variants(m)],
                  "base_config": J.cfg_text(case["base"]),
                  "ranges_head": ["range %d %d %s" % (i, j, " ".join(h)) for i, j, h in triples[:4]],
                  "expected_head": [M.run_iter_model(m.range_values(i, j), h, str)[:120] for i, j, h in triples[:4]]}
    return out
