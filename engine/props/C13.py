"""C13 - invalid or contradictory configuration is rejected, never silently ignored."""
import random

from hypothesis import strategies as st

from .. import emit as E
from .. import judge as J
from .. import model as M
from .. import mutate as MU
from .. import strategies as S

ID = "C13"
TIERS = {"quick": 1440, "thorough": 24000}
RULE = ("case = a legal generated (declaration, configuration) whose base is verified to compile, plus exactly one "
        "operator from the invalid-configuration grammar: unknown feature (bare / list / with parameter; same or own "
        "attribute); unknown parameter on each of the 18 parsers (bare and = \"x\"); a feature repeated in one or two "
        "attributes; a parameter repeated; a mode outside the documented list (case variants, typos, another feature's "
        "mode; iter's documented \"match\" is NOT in this set); a visibility outside \"\"|pub(crate)|pub; a value of the "
        "wrong kind (28 forms); range without iter; range with iter table_inline; iter range mode on holes; bare / "
        "name-value enum_tools attribute; 20 invalid variant-level attribute forms. Oracle: rustc must exit non-zero. "
        "non-trivial = base compiled and the mutation is the only difference (true by construction, counted after the "
        "base compile succeeds); distinct by (operator detail, attribute text)")

PROFILE = S.profile(renames=0.2, dups=0.0, attrs=0.2, sizes=[("small", 97), ("medium", 3)])


@st.composite
def cases(draw, tier="quick"):
    op = draw(st.sampled_from(MU.C13_OPS))
    prof = PROFILE
    if op == "iter_range_on_holes":
        prof = S.profile(renames=0.2, dups=0.0, attrs=0.2, sizes=[("small", 97), ("medium", 3)], shapes=["holes", "many"])
    spec = draw(S.enum_specs(prof))
    cfg = draw(S.configs(spec, p_on=0.3))
    return {"spec": spec, "cfg": cfg, "op": op, "seed": draw(st.integers(0, 2 ** 31))}


def build_mutant(case):
    rnd = J.case_rng(case)
    spec, cfg = case["spec"], case["cfg"]
    ops = [case["op"]] + ["unknown_feature"]
    for op in ops:
        r = MU.c13_apply(op, spec, cfg, rnd)
        if r is not None and r[1] is not None:
            return r
    raise AssertionError("no operator applies")


def run_case(case):
    out = J.Outcome()
    spec, cfg = case["spec"], case["cfg"]
    base_ok, base_err = J.accepts(E.enum_item_text(spec, cfg))
    if not base_ok:
        raise J.build.InfraError("C13 base does not compile (belongs to C10/C11):\n" + J.short_err(base_err))
    s2, c2, detail = build_mutant(case)
    mutant = E.enum_item_text(s2, c2)
    ok, err = J.accepts(mutant)
    out.label("operator", detail.split(":")[0])
    out.label("detail", detail)
    if ok:
        out.violate("an invalid configuration was accepted (silently ignored)", operator=detail, item=mutant[:3000])
    m = M.RefEnum(spec)
    out.label("shape", "gapless" if m.gapless else "holes")
    out.nontrivial = True
    out.fingerprint = J.fp(detail, [l for l in mutant.split("\n") if "enum_tools" in l])
    out.sample = {"operator": detail, "item": mutant.split("\n")[:14]}
    return out
