"""C13 - invalid or contradictory configuration is rejected, never silently ignored."""
import random

from hypothesis import strategies as st

from .. import emit as E
from .. import judge as J
from .. import model as M
from .. import mutate as MU
from .. import strategies as S

ID = "C13"
TIERS = {"quick": 1440, "thorough": 24000}
RULE = ("case = a legal generated (declaration, configuration) whose base is verified to compile, plus exactly one "
        "operator from the invalid-configuration grammar: unknown feature (bare / list / with parameter; same or own "
        "attribute); unknown parameter on each of the 18 parsers (bare and = \"x\"); a feature repeated in one or two "
        "attributes; a parameter repeated; a mode outside the documented list (case variants, typos, another feature's "
        "mode; iter's documented \"match\" is NOT in this set); a visibility outside \"\"|pub(crate)|pub; a value of the "
        "wrong kind (28 forms); range without iter; range with iter table_inline; iter range mode on holes; bare / "
        "name-value enum_tools attribute; 20 invalid variant-level attribute forms; plus a deterministic matrix: every one of "
        "the 18 parsers x every parameter it does not take (name, vis, mode, struct_name, value, bogus, rename) x bare / "
        "well-formed value, on a gapless and a with-holes enum. Oracle: rustc must exit non-zero. "
        "non-trivial = base compiled and the mutation is the only difference (true by construction, counted after the "
        "base compile succeeds); distinct by (operator detail, attribute text)")

PROFILE = S.profile(renames=0.2, dups=0.0, attrs=0.2, sizes=[("small", 97), ("medium", 3)])


@st.composite
def cases(draw, tier="quick"):
    op = draw(st.sampled_from(MU.C13_OPS))
    prof = PROFILE
    if op == "iter_range_on_holes":
        prof = S.profile(renames=0.2, dups=0.0, attrs=0.2, sizes=[("small", 97), ("medium", 3)], shapes=["holes", "many"])
    spec = draw(S.enum_specs(prof))
    cfg = draw(S.configs(spec, p_on=0.3))
    return {"spec": spec, "cfg": cfg, "op": op, "seed": draw(st.integers(0, 2 ** 31))}


MATRIX_PARAMS = {"name": ["\"x_y\"", None], "vis": ["\"pub\"", "\"pub(crate)\"", "\"\"", None], "mode": ["\"table\"", "\"match\"", "\"auto\"", None],
                 "struct_name": ["\"XStruct\"", None], "value": [None, "\"x\""], "bogus": [None, "\"x\""], "rename": ["\"x\""]}
COMPANION = {"mode": [("as_str", "as_str(mode = \"table\")"), ("iter", "iter(mode = \"table\")")],
             "name": [("into", "into(name = \"x_y\")")],
             "vis": [("next", "next(vis = \"pub\")")],
             "struct_name": [("iter", "iter(struct_name = \"XStruct\")"), ("names", "names(struct_name = \"XStruct\")")]}
MATRIX_SHAPES = [("u8", [0, 1, 2]), ("i16", [-5, -4, 3, 9])]


def fixed_cases(tier):
    return [{"param_matrix": True}, {"contradiction_matrix": True}]


I64MIN, I64MAX = -2 ** 63, 2 ** 63 - 1
HOLES_SHAPES = [("u8", [0, 2]), ("i8", [-128, 127]), ("i8", [-128, -127, 126, 127]), ("u16", [0, 1, 65535]), ("i64", [I64MIN, I64MAX]),
                ("i64", [I64MIN, 0, I64MAX - 1]), ("i64", [I64MIN, I64MIN + 1, I64MAX]), ("i128", [I64MIN, I64MAX]), ("isize", [I64MIN, I64MAX]),
                ("isize", [I64MIN, -1, I64MAX - 1]), ("u64", [0, I64MAX]), ("u64", [0, 1, I64MAX - 1, I64MAX]), ("u128", [0, 2 ** 32, I64MAX]),
                ("i32", [-2 ** 31, 2 ** 31 - 1]), ("u32", [0, 65536, 2 ** 32 - 1]), ("usize", [0, 2 ** 32]), ("i16", [-5, -4, 3, 9, 10])]
ANY_SHAPES = HOLES_SHAPES + [("u8", [0, 1, 2]), ("i8", [-2, -1, 0, 1]), ("u8", list(range(256))), ("i64", [I64MAX - 1, I64MAX])]


def run_contradiction_matrix(case):
    """The three documented contradictions on every fixed shape (including spans that wrap around 2^64), and every
    string parameter given twice in every bare/value combination: each must be rejected."""
    import concurrent.futures
    out = J.Outcome()
    jobs = []

    def spec_of(r, vals):
        return {"repr": r, "vis": "pub", "ident": "E", "enum_attrs": [],
                "variants": [{"ident": "V%d" % i, "disc": str(v)} for i, v in enumerate(vals)]}

    def cfg_raw(raws):
        feats = [{"f": "_raw", "raw": r_} for r_ in raws]
        return {"feats": feats, "groups": [len(feats)], "pos": ["pre"]}
    for r, vals in HOLES_SHAPES:
        for raws in (["iter(mode = \"range\")"], ["into", "iter(mode = \"range\")", "try_from"], ["iter(mode = \"range\")", "names"]):
            jobs.append(("iter_range_on_holes", "%s %s" % (r, raws), E.enum_item_text(spec_of(r, vals), cfg_raw(raws))))
    for r, vals in ANY_SHAPES:
        for raws in (["range"], ["range", "into"], ["range(name = \"r\")", "names"]):
            jobs.append(("range_without_iter", "%s %s" % (r, raws), E.enum_item_text(spec_of(r, vals), cfg_raw(raws))))
        for raws in (["iter(mode = \"table_inline\")", "range"], ["range", "iter(mode = \"table_inline\")"]):
            jobs.append(("range_table_inline", "%s %s" % (r, raws), E.enum_item_text(spec_of(r, vals), cfg_raw(raws))))
    dup_forms = lambda k, v: ["%s, %s" % (k, k), "%s = %s, %s = %s" % (k, v, k, v), "%s, %s = %s" % (k, k, v), "%s = %s, %s" % (k, v, k)]
    for fname, legal in sorted(MU.PARAM_FEATURES.items()):
        if fname == "sorted":
            legal_vals = [("name", "\"x\""), ("value", "\"x\"")]
        else:
            legal_vals = [(k, {"name": "\"n_x\"", "vis": "\"pub\"", "mode": "\"table\"", "struct_name": "\"XS\""}[k]) for k in legal]
        for k, v in legal_vals:
            for form in dup_forms(k, v):
                raws = (["iter"] if fname == "range" else []) + ["%s(%s)" % (fname, form)]
                jobs.append(("dup_param", "%s(%s)" % (fname, form), E.enum_item_text(spec_of("u8", [0, 1, 2]), cfg_raw(raws))))
    with concurrent.futures.ThreadPoolExecutor(max_workers=16) as ex:
        res = list(ex.map(lambda j: J.accepts(j[2])[0], jobs))
    for (kind, what, item), ok in zip(jobs, res):
        out.count("matrix_" + kind)
        if ok:
            out.violate("an invalid / contradictory configuration was accepted", kind=kind, case=what, item=item[:1500])
    out.nontrivial = True
    out.fingerprint = J.fp("contradiction_matrix")
    out.sample = {"contradiction_matrix_cases": len(jobs), "example": jobs[0][2].split("\n")[:6]}
    return out


def run_param_matrix(case):
    """Every parser x every parameter it does NOT take x bare / well-formed value: each must be rejected.
    (A parameter another feature would accept, with a value that is well formed there, is the realistic slip.)"""
    import concurrent.futures
    out = J.Outcome()
    jobs = []
    for r, vals in MATRIX_SHAPES:
        spec = {"repr": r, "vis": "pub", "ident": "E", "enum_attrs": [],
                "variants": [{"ident": "V%d" % i, "disc": str(v)} for i, v in enumerate(vals)]}
        for fname, legal in sorted(MU.PARAM_FEATURES.items()):
            for pname, forms in MATRIX_PARAMS.items():
                if pname in legal:
                    continue
                for form in forms:
                    ptxt = pname if form is None else "%s = %s" % (pname, form)
                    feats = ([{"f": "iter", "params": []}] if fname == "range" else []) + [{"f": "_raw", "raw": "%s(%s)" % (fname, ptxt)}]
                    cfg = {"feats": feats, "groups": [len(feats)], "pos": ["pre"]}
                    jobs.append((fname, ptxt, E.enum_item_text(spec, cfg)))
                    # the same foreign parameter while another feature of the derive legitimately carries it
                    comp = COMPANION.get(pname)
                    if comp and form is not None and r == MATRIX_SHAPES[0][0]:
                        for cf, craw in comp:
                            if cf == fname or (cf == "iter" and fname == "range"):
                                continue
                            for order in (0, 1):
                                fl = [{"f": "_raw", "raw": craw}, {"f": "_raw", "raw": "%s(%s)" % (fname, ptxt)}]
                                if fname == "range" and cf != "iter":
                                    fl.append({"f": "iter", "params": []})
                                if order:
                                    fl.reverse()
                                c2 = {"feats": fl, "groups": [1, len(fl) - 1] if order else [len(fl)], "pos": ["pre", "post"] if order else ["pre"]}
                                jobs.append((fname, ptxt + " with " + craw, E.enum_item_text(spec, c2)))
    with concurrent.futures.ThreadPoolExecutor(max_workers=16) as ex:
        res = list(ex.map(lambda j: J.accepts(j[2])[0], jobs))
    for (fname, ptxt, item), ok in zip(jobs, res):
        if ok:
            out.violate("a parameter the feature does not take was accepted (silently ignored)", feature=fname, parameter=ptxt, item=item[:1500])
    out.count("param_matrix_cases", len(jobs))
    out.nontrivial = True
    out.fingerprint = J.fp("param_matrix")
    out.sample = {"param_matrix_cases": len(jobs), "example": jobs[0][2].split("\n")[:6]}
    return out


def build_mutant(case):
    rnd = J.case_rng(case)
    spec, cfg = case["spec"], case["cfg"]
    ops = [case["op"]] + ["unknown_feature"]
    for op in ops:
        r = MU.c13_apply(op, spec, cfg, rnd)
        if r is not None and r[1] is not None:
            return r
    raise AssertionError("no operator applies")


def run_case(case):
    if "param_matrix" in case:
        return run_param_matrix(case)
    if "contradiction_matrix" in case:
        return run_contradiction_matrix(case)
    out = J.Outcome()
    spec, cfg = case["spec"], case["cfg"]
    base_ok, base_err = J.accepts(E.enum_item_text(spec, cfg))
    if not base_ok:
        raise J.build.InfraError("C13 base does not compile (belongs to C10/C11):\n" + J.short_err(base_err))
    s2, c2, detail = build_mutant(case)
    mutant = E.enum_item_text(s2, c2)
    ok, err = J.accepts(mutant)
    out.label("operator", detail.split(":")[0])
    out.label("detail", detail)
    if ok:
        out.violate("an invalid configuration was accepted (silently ignored)", operator=detail, item=mutant[:3000])
    m = M.RefEnum(spec)
    out.label("shape", "gapless" if m.gapless else "holes")
    out.nontrivial = True
    out.fingerprint = J.fp(detail, [l for l in mutant.split("\n") if "enum_tools" in l])
    out.sample = {"operator": detail, "item": mutant.split("\n")[:14]}
    return out
