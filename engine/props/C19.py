"""C19 - generated items have the documented signatures, const where documented."""
from hypothesis import strategies as st

from .. import build
from .. import emit as E
from .. import judge as J
from .. import model as M
from .. import strategies as S
from . import C10

ID = "C19"
TIERS = {"quick": 1920, "thorough": 30000}
RULE = ("case = generated enum (gapless / with holes, every repr) x generated legal configuration (all modes, custom "
        "names, struct names, attribute splitting); the probe contains only compile-time ascriptions in a separate "
        "compile unit: `const _: R = E::into(E::V)` (const fn usable in constant expressions), `const _: E = E::MIN/MAX`, "
        "fn-pointer coercions for next/next_back (fn(E)->Option<E>), try_from (fn(R)->Option<E>), from_str "
        "(fn(&str)->Option<E>), as_str (fn(E)->&'static str), into (fn(E)->R), iter (fn()->It), range (fn(E,E)->It), "
        "names (fn()->Names), trait-bound assertions TryFrom<R, Error=()>, FromStr<Err=()>, From<E> for R, From<E> for "
        "&'static str, Debug + Display, and Iterator<Item=T> + DoubleEndedIterator + ExactSizeIterator + FusedIterator "
        "for both structs; plus a small-scope enumeration of every feature subset of size <= 2 (quick) / <= 3 (thorough) x "
        "every mode on 9 fixed shapes with the same ascriptions. Oracle: compiles. non-trivial = configuration not among the pinned suite's; distinct by "
        "(configuration, shape, repr)")

PROFILE = S.profile(renames=0.1, dups=0.0, attrs=0.1, sizes=[("small", 80), ("medium", 12), ("large", 3), ("full8", 5)])


@st.composite
def cases(draw, tier="quick"):
    spec = draw(S.enum_specs(PROFILE))
    cfg = draw(S.configs(spec, p_on=[0.15, 0.5, 0.5, 0.85]))
    return {"spec": spec, "cfg": cfg}


def ascriptions(spec, cfg):
    m = M.RefEnum(spec)
    r = spec["repr"]
    EN = spec.get("ident", "E")
    v = "%s::%s" % (EN, m.idents[0])
    en = lambda f: E.enabled(cfg, f)
    nm = lambda f: E.item_name(cfg, f)
    O = "::core::option::Option"
    L = []
    if en("into"):
        L.append("const _I: %s = E::%s(%s);" % (r, nm("into"), v))
        L.append("static _S: %s = E::%s(%s);" % (r, nm("into"), v))
        L.append("let _: fn(E) -> %s = E::%s;" % (r, nm("into")))
    if en("MIN"):
        L.append("const _MIN: E = E::%s;" % nm("MIN"))
        L.append("let _: E = E::%s;" % nm("MIN"))
    if en("MAX"):
        L.append("const _MAX: E = E::%s;" % nm("MAX"))
    if en("next"):
        L.append("let _: fn(E) -> %s<E> = E::%s;" % (O, nm("next")))
    if en("next_back"):
        L.append("let _: fn(E) -> %s<E> = E::%s;" % (O, nm("next_back")))
    if en("try_from"):
        L.append("let _: fn(%s) -> %s<E> = E::%s;" % (r, O, nm("try_from")))
    if en("from_str"):
        L.append("let _: fn(&str) -> %s<E> = E::%s;" % (O, nm("from_str")))
        L.append("let _: for<'a> fn(&'a str) -> %s<E> = E::%s;" % (O, nm("from_str")))
    if en("as_str"):
        L.append("let _: fn(E) -> &'static str = E::%s;" % nm("as_str"))
    it = E.struct_name(cfg, spec, "iter")
    ns = E.struct_name(cfg, spec, "names")
    if en("iter"):
        L.append("let _: fn() -> %s = E::%s;" % (it, nm("iter")))
        L.append("assert_iter::<%s, E>();" % it)
    if en("range"):
        L.append("let _: fn(E, E) -> %s = E::%s;" % (it, nm("range")))
    if en("names"):
        L.append("let _: fn() -> %s = E::%s;" % (ns, nm("names")))
        L.append("assert_iter::<%s, &'static str>();" % ns)
    if en("TryFrom"):
        L.append("assert_try_from::<E, %s>();" % r)
        L.append("let _: ::core::result::Result<E, ()> = <E as ::core::convert::TryFrom<%s>>::try_from(0);" % r)
    if en("FromStr"):
        L.append("assert_from_str::<E>();")
        L.append("let _: ::core::result::Result<E, ()> = <E as ::core::str::FromStr>::from_str(\"\");")
    if en("Into"):
        L.append("assert_from::<%s, E>();" % r)
    if en("IntoStr"):
        L.append("assert_from::<&'static str, E>();")
    if en("Debug"):
        L.append("assert_debug::<E>();")
    if en("Display"):
        L.append("assert_display::<E>();")
    if EN != "E":
        import re as _re
        L = [_re.sub(r"(?<![A-Za-z0-9_:])E(?![A-Za-z0-9_])", EN, l) for l in L]
    return L


HELPERS = """
    fn assert_iter<I, T>() where I: ::core::iter::Iterator<Item = T> + ::core::iter::DoubleEndedIterator + ::core::iter::ExactSizeIterator + ::core::iter::FusedIterator {}
    fn assert_try_from<T: ::core::convert::TryFrom<R, Error = ()>, R>() {}
    fn assert_from_str<T: ::core::str::FromStr<Err = ()>>() {}
    fn assert_from<T: ::core::convert::From<U>, U>() {}
    fn assert_debug<T: ::core::fmt::Debug>() {}
    fn assert_display<T: ::core::fmt::Display>() {}
"""


def fixed_cases(tier):
    return [{"small_scope": 3 if tier == "thorough" else 2}, {"param_matrix": 1}]


def run_param_matrix(case):
    """Every function-like feature x name kind (plain, leading underscore, double underscore, a prelude method's name)
    x every visibility, and every combination of given / defaulted struct names: the ascriptions must still compile."""
    from . import common as C
    out = J.Outcome()
    items, descr = [], []
    shapes = [C.scope_spec("u8", [0, 1, 2, 3]), C.scope_spec("i16", [-3, -2, 4, 9])]
    for spec in shapes:
        for f in E.FN_FEATURES:
            for nm in (None, "f_%s" % f.lower(), "_%s" % f.lower(), "__%s" % f.lower(), "__raw", "clone"):
                for vis in (None, "", "pub(crate)", "pub"):
                    ps = ([["name", nm]] if nm is not None else []) + ([["vis", vis]] if vis is not None else [])
                    feats = [{"f": f, "params": ps}]
                    if f == "range":
                        feats.append({"f": "iter", "params": []})
                    cfg = {"feats": feats, "groups": [len(feats)], "pos": ["pre"]}
                    descr.append(cfg)
        for isn in (None, "XIter", "MyIter", "ENames", "QNames"):
            for nsn in (None, "XNames", "MyNames", "EIter", "QIter"):
                if (isn or "EIter") == (nsn or "ENames"):
                    continue            # the user named both structs alike: not a legal configuration
                for order in (0, 1):
                    feats = [{"f": "iter", "params": [["struct_name", isn]] if isn else []},
                             {"f": "names", "params": [["struct_name", nsn]] if nsn else []}]
                    if order:
                        feats.reverse()
                    descr.append({"feats": feats, "groups": [2], "pos": ["pre"]})
        for cfg in descr[len(items):]:
            lines = ascriptions(spec, cfg)
            body = E.enum_item_text(spec, cfg) + HELPERS + "    pub fn sig() {\n" + "\n".join("        " + l for l in lines) + "\n    }"
            items.append((len(items), body))
    # repr matrix: every repr x (gapless at the type MIN, gapless across zero / from 3, holes touching both limits)
    # x every legal iterator mode, all features on
    for r in M.REPRS:
        lo, hi = M.repr_domain(r)
        for vals in ([lo, lo + 1, lo + 2], ([-2, -1, 0, 1] if lo < 0 else [3, 4, 5, 6]), [lo, lo + 2, hi - 1, hi]):
            spec = C.scope_spec(r, vals)
            m = M.RefEnum(spec)
            for md in S.legal_iter_modes(m, True):
                cfg = S.simple_config([f for f in E.ALL_FEATURES if f != "sorted"], {"iter": md} if md else {})
                descr.append(cfg)
                lines = ascriptions(spec, cfg)
                body = E.enum_item_text(spec, cfg) + HELPERS + "    pub fn sig() {\n" + "\n".join("        " + l for l in lines) + "\n    }"
                items.append((len(items), body))
    bad = C.failing_items(items)
    for i, err in bad[:3]:
        out.violate("a generated item does not have its documented signature (parameter matrix)", config=J.cfg_text(descr[i]), stderr=err)
    out.count("param_matrix_configs", len(items))
    out.nontrivial = True
    out.fingerprint = J.fp("param_matrix")
    out.sample = {"param_matrix_configs": len(items), "example": J.cfg_text(descr[7])}
    return out


def run_small_scope(case):
    """Ascription probes for every feature subset of size <= k x every mode on the fixed shapes."""
    import concurrent.futures
    from . import common as C
    out = J.Outcome()
    jobs = []
    for name, r, vals in C.SCOPE_SHAPES + C.SCOPE_SHAPES_EXTRA:
        spec = C.scope_spec(r, vals)
        m = M.RefEnum(spec)
        cfgs = C.scope_configs(1 if len(vals) > 100 else case["small_scope"], m.gapless)
        items = []
        for i, c in enumerate(cfgs):
            lines = ascriptions(spec, c)
            body = E.enum_item_text(spec, c) + HELPERS + "    pub fn sig() {\n" + "\n".join("        " + l for l in lines) + "\n    }"
            items.append((i, body))
        out.count("small_scope_configs", len(items))
        step = 16 if len(vals) > 100 else 300
        for b in range(0, len(items), step):
            jobs.append((name, cfgs, items[b:b + step]))
    with concurrent.futures.ThreadPoolExecutor(max_workers=16) as ex:
        results = list(ex.map(lambda j: (j, C.failing_items(j[2])), jobs))
    for (name, cfgs, _items), bad in results:
        for i, err in bad[:2]:
            out.violate("a generated item does not have its documented signature (small-scope enumeration)", shape=name,
                        config=J.cfg_text(cfgs[i]), stderr=err)
    out.nontrivial = True
    out.fingerprint = J.fp("small_scope", case["small_scope"])
    out.sample = {"small_scope_max_features": case["small_scope"], "shapes": [n for n, _r, _v in C.SCOPE_SHAPES]}
    return out


def run_case(case):
    if "small_scope" in case:
        return run_small_scope(case)
    if "param_matrix" in case:
        return run_param_matrix(case)
    out = J.Outcome()
    spec, cfg = dict(case["spec"]), case["cfg"]
    m = M.RefEnum(spec)
    lines = ascriptions(spec, cfg)
    src = (E.HEADER + "pub mod m {\n    use ::enum_tools::EnumTools;\n" + E.enum_item_text(spec, cfg) + HELPERS +
           "    pub fn sig() {\n" + "\n".join("        " + l for l in lines) + "\n    }\n}\n")
    c = build.rustc(src, mode="check")
    out.count("ascriptions", len(lines))
    if not c.ok:
        out.violate("a generated item does not have its documented signature (ascription probe fails to compile)",
                    stderr=J.short_err(c.stderr), config=J.cfg_text(cfg))
    for k, v in m.labels().items():
        if k in ("repr", "shape"):
            out.label(k, v)
    for f in ("as_str", "from_str", "FromStr", "iter"):
        ft = E.feat(cfg, f)
        if ft is not None:
            out.label("mode_" + f, E.param(ft, "mode") or "default")
    key = C10.cfg_key(cfg)
    out.nontrivial = key not in C10.SUITE and len(lines) > 0
    out.fingerprint = J.fp(key, J.cfg_text(cfg), m.gapless, m.repr)
    out.sample = {"config": J.cfg_text(cfg), "repr": m.repr, "shape": "gapless" if m.gapless else "holes", "ascriptions_head": lines[:6]}
    return out
