"""C03 - as_str / Display / Debug / IntoStr return exactly the variant's name."""
import random

from hypothesis import strategies as st

from .. import emit as E
from .. import judge as J
from .. import model as M
from .. import strategies as S
from . import common as C

ID = "C03"
TIERS = {"quick": 960, "thorough": 14000}
RULE = ("case = generated enum with renames (empty, quotes, backslashes, braces, NUL, non-ASCII, other variants' "
        "identifiers) x 2-4 configuration variants of the same declaration in one probe (as_str match / table / auto "
        "resolving both ways / helper-only via Debug+Display+IntoStr) with random co-features; all four observation "
        "points (as_str, {} and to_string, {:?}, <&str>::from) for every variant (sampled above 64). Oracle = model "
        "name, byte exact. non-trivial = a table-mode module on an enum with holes or MIN != 0, or a rename with a "
        "non-alphanumeric character; distinct by (repr, discriminants, names, module set)")

PROFILE = S.profile(renames=0.6, dups=0.1, sizes=[("small", 68), ("medium", 10), ("large", 17), ("full8", 5)],
                    anchors=["min", "max", "zero", "neg", "neg", "rand", "narrow_max", "narrow_min"])

VARIANTS = [
    ("match", {"as_str": [["mode", "match"]], "Debug": [], "Display": [], "IntoStr": []}),
    ("table", {"as_str": [["mode", "table"]], "Debug": [], "Display": [], "IntoStr": []}),
    ("auto_alone", {"as_str": [], "Display": []}),
    ("auto_names", {"as_str": [["mode", "auto"]], "names": [], "Debug": []}),
    ("helper_only", {"Debug": [], "Display": [], "IntoStr": []}),
    ("helper_two_autos", {"IntoStr": [], "from_str": [], "FromStr": []}),
    ("table_range", {"as_str": [["mode", "table"]], "iter": [], "range": [], "IntoStr": []}),
    ("table_range_iter_table", {"as_str": [["mode", "table"]], "iter": [["mode", "table"]], "range": [], "Display": []}),
    ("helper_table_parsers_iter_range", {"Display": [], "from_str": [["mode", "table"]], "iter": [], "range": []}),
]
STRING_FEATS = ("as_str", "Debug", "Display", "IntoStr", "names", "from_str", "FromStr")


@st.composite
def cases(draw, tier="quick"):
    spec = draw(S.enum_specs(PROFILE))
    base = draw(S.configs(spec, forbid=STRING_FEATS, p_on=0.25, split=False))
    mods = draw(st.lists(st.sampled_from(range(len(VARIANTS))), min_size=2, max_size=4, unique=True))
    return {"spec": spec, "base": base, "mods": sorted(mods), "seed": draw(st.integers(0, 2 ** 31))}


def fixed_cases(tier):
    """Regressions of repaired defect D1 (a02030d): later runs starting below zero, first run at the type MIN."""
    out = []
    for r, vals in (("i8", [-10, -5, -4, 3]), ("i8", [-128, -127, -3, -2, 100]), ("i16", [-32768, -5, -4, -1, 0, 7]),
                    ("i64", [-2 ** 63, -2 ** 63 + 1, -9, -8, 5]), ("isize", [-7, -6, -2, 4, 5])):
        spec = {"repr": r, "vis": "pub", "ident": "E", "enum_attrs": [],
                "variants": [{"ident": "V%d" % i, "disc": str(v), "rename": ("n %d" % i if i % 2 else None)} for i, v in enumerate(vals)]}
        out.append({"spec": spec, "base": S.simple_config([]), "mods": list(range(len(VARIANTS))), "seed": 0})
    for spec in C.run_count_specs([16, 17, 64, 65, 128, 129, 255, 256, 257]):
        out.append({"spec": spec, "base": S.simple_config([]), "mods": [1, 6], "seed": 0})      # table, table_range
    # name-table matrix (total name bytes on / next to 2^8 and 2^16) and run-length matrix, match and table
    for spec in C.name_table_specs():
        out.append({"spec": spec, "base": S.simple_config([]), "mods": [0, 1], "seed": 2, "all_idxs": len(spec["variants"]) <= 100})
    for spec in C.structured_specs(("i8", "u8", "i64")):
        out.append({"spec": spec, "base": S.simple_config([]), "mods": [1, 6], "seed": 5, "all_idxs": True})
    for spec in C.tied_run_specs():
        out.append({"spec": spec, "base": S.simple_config([]), "mods": [1, 6, 7], "seed": 4, "all_idxs": True})
    for spec in C.run_length_specs({(64, 64), (65, 64), (1, 64), (128, 128), (256, 63), (257, 65)}):
        out.append({"spec": spec, "base": S.simple_config([]), "mods": [1, 6], "seed": 3})
    return out


def run_case(case):
    out = J.Outcome()
    spec = case["spec"]
    m = M.RefEnum(spec)
    rnd = J.case_rng(case)
    idxs = list(range(m.n)) if case.get("all_idxs") else C.pick_idxs(m, rnd)
    sc = E.Script()
    modules = []
    table_like = False
    for k, vi in enumerate(case["mods"]):
        name, ov = VARIANTS[vi]
        cfg = C.with_feats(case["base"], ov)
        modules.append((spec, cfg, {"kind": "plain"}))
        C.sc_str(sc, k, m, cfg, idxs)
        out.count("module_" + name)
        if name in ("table", "auto_names", "helper_two_autos", "table_range", "table_range_iter_table"):
            table_like = True
    J.run_script(out, modules, sc)
    C.std_labels(out, m)
    nonalnum = any(not nm.isalnum() for nm in m.names)
    out.label("rename_nonalnum", nonalnum)
    out.label("over_255_variants_wide_repr", m.n > 255 and M.repr_bits(m.repr) >= 16)
    out.count("name_observations", len(sc.lines))
    out.nontrivial = (table_like and (not m.gapless or m.min != 0)) or nonalnum
    out.fingerprint = J.fp(m.repr, m.sorted_values if m.n <= 64 else [m.n, m.runs[:20]], sorted(m.names)[:64], case["mods"])
    out.sample = {"spec": J.abridge_spec(spec), "modules": [VARIANTS[v][0] for v in case["mods"]],
                  "base_config": J.cfg_text(case["base"]), "script_head": sc.lines[:5], "expected_head": sc.expected[:5]}
    return out
