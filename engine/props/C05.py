"""C05 - MIN, MAX, next and next_back follow discriminant order, not declaration order."""
import random

from hypothesis import strategies as st

from .. import emit as E
from .. import judge as J
from .. import model as M
from .. import strategies as S
from . import common as C

ID = "C05"
TIERS = {"quick": 1280, "thorough": 20000}
RULE = ("case = generated enum (weighted to permuted declaration order, single-variant enums, many runs, runs "
        "ending at the type MAX / starting at the type MIN) x legal configuration with MIN, MAX, next, next_back forced "
        "on and random co-features (table-mode as_str and range switch the range table to its with-offset form); "
        "calls = MIN, MAX, next and next_back of every variant (sampled above 64), the full walk from MIN by next and "
        "from MAX by next_back (bounded by N+2 steps). Oracle = sorted model list. non-trivial = >= 2 runs, or a type "
        "limit touched, or non-identity declaration order; distinct by (repr, discriminants, order, configuration)")

PROFILE = S.profile(renames=0.05, dups=0.0, attrs=0.1, orders=["identity", "reverse", "perm", "perm", "perm"],
                    anchors=["min", "min", "max", "max", "zero", "neg", "rand", "narrow_max", "narrow_min"],
                    shapes=["gapless", "holes", "holes", "many", "many", "lots", "lots"],
                    sizes=[("small", 70), ("medium", 18), ("large", 9), ("full8", 3)])


def fixed_cases(tier):
    # run-count matrix: exactly k runs for k around every power of two up to 300
    out = [{"spec": spec, "cfg": S.simple_config(["MIN", "MAX", "next", "next_back", "try_from"]), "seed": 0} for spec in C.run_count_specs()]
    # limits matrix: many enums of one probe share identifier, repr and variant identifiers and differ only in their values
    out += [{"limits_matrix": r} for r in ("i8", "u8", "i16", "u32", "i64", "u64", "i128", "usize")]
    out += [{"spec": spec, "cfg": S.simple_config(["MIN", "MAX", "next", "next_back"]), "seed": 2} for spec in C.block_specs()]
    out += [{"spec": spec, "cfg": S.simple_config(["MIN", "MAX", "next", "next_back"]), "seed": 3} for spec in C.tied_run_specs()]
    out += [{"spec": spec, "cfg": S.simple_config(["MIN", "MAX", "next", "next_back"]), "seed": 4} for spec in C.structured_specs()]
    # run-length matrix: runs whose length is on / next to a power of two
    out += [{"spec": spec, "cfg": S.simple_config(["MIN", "MAX", "next", "next_back"]), "seed": 1} for spec in C.run_length_specs({(1, 64), (63, 64), (64, 64), (65, 64), (64, 1), (65, 65), (127, 128), (128, 128), (129, 63), (255, 1), (256, 63), (257, 65), (2, 128)})]
    return out


def run_limits(case):
    from . import C01
    out = J.Outcome()
    modules, models, _cfg = C01.limits_modules(case["limits_matrix"])
    cfg = S.simple_config(["MIN", "MAX", "next", "next_back"])
    modules = [(sp, cfg, ctx) for (sp, _c, ctx) in modules]
    sc = E.Script()
    for k, m in enumerate(models):
        C.sc_minmax(sc, k, m, cfg)
        C.sc_next(sc, k, m, cfg, list(range(m.n)))
    J.run_script(out, modules, sc)
    out.count("limits_matrix_enums", len(modules))
    out.nontrivial = True
    out.fingerprint = J.fp("limits_matrix", case["limits_matrix"])
    out.sample = {"limits_matrix": case["limits_matrix"], "enums": len(modules)}
    return out


@st.composite
def cases(draw, tier="quick"):
    spec = draw(S.enum_specs(PROFILE))
    cfg = draw(S.configs(spec, force=("MIN", "MAX", "next", "next_back"), p_on=0.25, p_sorted=0.2))
    return {"spec": spec, "cfg": cfg, "seed": draw(st.integers(0, 2 ** 31))}


def run_case(case):
    if "limits_matrix" in case:
        return run_limits(case)
    out = J.Outcome()
    spec, cfg = case["spec"], case["cfg"]
    m = M.RefEnum(spec)
    rnd = J.case_rng(case)
    sc = E.Script()
    idxs = C.pick_idxs(m, rnd)
    C.sc_minmax(sc, 0, m, cfg)
    C.sc_next(sc, 0, m, cfg, idxs)
    J.run_script(out, [(spec, cfg, {"kind": "plain"})], sc)
    C.std_labels(out, m)
    lab = m.labels()
    out.count("next_calls", 2 * len(idxs))
    out.count("walks", 2)
    if E.enabled(cfg, "MIN") or E.enabled(cfg, "MAX"):
        out.excluded["KF2"] = 1          # variant identifiers MIN / MAX are kept out of the pool while KF2 is listed
    out.nontrivial = len(m.runs) >= 2 or lab["touch_type_min"] or lab["touch_type_max"] or lab["perm"] != "identity"
    out.fingerprint = J.fp(m.repr, m.values if m.n <= 64 else [m.n, m.runs[:20], m.values[:8]], J.cfg_text(cfg))
    out.sample = {"spec": J.abridge_spec(spec), "config": J.cfg_text(cfg), "script_head": sc.lines[:6],
                  "expected_head": [str(e)[:100] for e in sc.expected[:6]]}
    return out
