"""C08 - names() yields the names in discriminant order, aligned with iter() and as_str."""
import random

from hypothesis import strategies as st

from .. import emit as E
from .. import judge as J
from .. import model as M
from .. import strategies as S
from . import common as C

ID = "C08"
TIERS = {"quick": 960, "thorough": 12000}
RULE = ("case = generated enum with renames / duplicate names / permuted declaration order x legal configuration "
        "with names forced on and random co-features (as_str/from_str/FromStr in any mode share the name table, iter in "
        "any mode) x histories on names() as in C06 (3 Hypothesis-drawn + 16 PRNG), iter().zip(names()) and "
        "as_str of every variant. Oracles: model name list in discriminant order; std::vec::IntoIter in-probe. "
        "non-trivial = (non-identity declaration order or a rename present) and a two-sided history; distinct by "
        "(repr, discriminants, names, order, configuration)")

PROFILE = S.profile(renames=0.6, dups=0.15, orders=["identity", "reverse", "perm", "perm", "by_name"])


@st.composite
def cases(draw, tier="quick"):
    spec = draw(S.enum_specs(PROFILE))
    cfg = draw(S.configs(spec, force=("names",), p_on=0.35, p_sorted=0.15))
    m = M.RefEnum(spec)
    hists = draw(st.lists(S.histories(m.n), min_size=1, max_size=3))
    return {"spec": spec, "cfg": cfg, "hists": hists, "seed": draw(st.integers(0, 2 ** 31))}


def fixed_cases(tier):
    """Name tables beyond the reach of a narrow offset: total name bytes just above 256 and just above 65536,
    with `names` as the only user of the names and together with as_str / from_str."""
    out = []
    for spec in C.name_table_specs():
        n = len(spec["variants"])
        total = sum(len(v["rename"]) for v in spec["variants"])
        for feats, modes in ((["names"], {}), (["names", "as_str", "from_str"], {"as_str": "table", "from_str": "table"}), (["names", "iter", "as_str"], {})):
            out.append({"spec": spec, "cfg": S.simple_config(feats, modes), "hists": [["n", "b", "collect"], ["nth:%d" % (n - 2), "collect"], ["nthb:1", "rev"]], "seed": total})
    return out


def run_case(case):
    out = J.Outcome()
    spec, cfg = case["spec"], case["cfg"]
    m = M.RefEnum(spec)
    rnd = J.case_rng(case)
    hists = [list(h) for h in case["hists"]] + [C.rand_history(rnd, m.n, ord_ok=True) for _ in range(16)] + [["l"], ["collect"], ["max"], ["min"], ["n", "b", "max"]]
    sc = E.Script()
    C.sc_names(sc, 0, m, cfg, hists)
    C.sc_str(sc, 0, m, cfg, C.pick_idxs(m, rnd, 32))
    J.run_script(out, [(spec, cfg, {"kind": "plain"})], sc)
    C.std_labels(out, m)
    two = sum(1 for h in hists if S.history_labels(h, m.n)["two_sided"])
    renamed = any(v.get("rename") is not None for v in m.live)
    out.label("renamed", renamed)
    out.label("duplicate_names", m.has_duplicate_names())
    out.label("zip_checked", E.enabled(cfg, "iter"))
    out.count("histories", len(hists))
    out.nontrivial = (m.labels()["perm"] != "identity" or renamed) and two > 0
    out.fingerprint = J.fp(m.repr, m.values if m.n <= 64 else [m.n, m.runs[:20]], m.names[:64], J.cfg_text(cfg))
    out.sample = {"spec": J.abridge_spec(spec), "config": J.cfg_text(cfg),
                  "histories_head": [" ".join(h) for h in hists[:3]],
                  "expected_head": [M.run_iter_model(m.sorted_names, h, M.hexs)[:160] for h in hists[:3]]}
    return out
